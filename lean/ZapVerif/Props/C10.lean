import ZapVerif.Model.Deliver
import ZapVerif.Proofs.EntryWF
import ZapVerif.Proofs.TransCE
import ZapVerif.Proofs.TransCores
/-! # C10 — field and sink failures are contained and reported; the entry is never lost -/
namespace ZapVerif.C10
open ZapVerif ZapVerif.Esc ZapVerif.Json ZapVerif.Enc ZapVerif.Entry ZapVerif.Deliver

/-- with failures injected at ANY set of positions (marshaler errors, panicking or nil Stringers / errors,
    reflection failures, failing causes inside error groups — `FieldOK` puts no constraint on them), the entry is
    still emitted as one well-formed object on one line -/
theorem field_failure_contained (c : Cfg) (e : Ent) (ctx : List (List Field)) (fields : List Field)
    (he : EntOK e) (hc : ∀ fs ∈ ctx, ∀ f ∈ fs, FieldOK f) (hf : ∀ f ∈ fields, FieldOK f) :
    jsonLine c e ctx fields = render (J.obj (entryMembers c e ctx fields)) ++ c.ending ∧
    WFj (J.obj (entryMembers c e ctx fields)) ∧ (∀ b ∈ render (J.obj (entryMembers c e ctx fields)), b ≥ 32) := by
  have hok := entryMembers_ok c e ctx fields he hc hf
  exact ⟨jsonLine_eq_render c e ctx fields he hc hf, hok.1, render_ge _ hok.1 hok.2⟩

/-- all other fields are intact: what a field contributes does not depend on its neighbours, failing or not -/
theorem siblings_independent (a b : List Field) (f : Field) :
    addFields (a ++ f :: b) = addFields a ++ addTo f ++ addFields b := by
  simp [addFields, List.flatMap_append, List.flatMap_cons]

/-- each failure is reported by a string member `<key>Error` right after what the field managed to write -/
theorem failing_object_reports (k : Bytes) (body : List OC) (msg : Bytes) :
    addTo (.obj k body (some msg)) = [OC.obj k body, strPrim (sfx k "Error") msg] := by simp [addTo, errCall]
theorem failing_array_reports (k : Bytes) (body : List AC) (msg : Bytes) :
    addTo (.arr k body (some msg)) = [OC.arr k body, strPrim (sfx k "Error") msg] := by simp [addTo, errCall]
theorem failing_inline_reports (k : Bytes) (body : List OC) (msg : Bytes) :
    addTo (.inline k body (some msg)) = body ++ [strPrim (sfx k "Error") msg] := by simp [addTo, errCall]
theorem panicking_stringer_reports (k m : Bytes) :
    addTo (.stringer k (.panic m)) = [strPrim (sfx k "Error") (panicText m)] := by simp [addTo, errCall]
theorem nil_stringer_is_nil_text (k : Bytes) : addTo (.stringer k .nilRecv) = [strPrim k nilText] := by simp [addTo]
theorem panicking_error_reports (k m : Bytes) (v : Option Bytes) (g : Bool) (cs : List ErrV) :
    addTo (.error k (.mk (.panic m) v g cs)) = [strPrim (sfx k "Error") (panicText m)] := by
  simp [addTo, encErr, errCall]

/-- a failed reflection writes nothing of its own (encode-before-key), only the report -/
theorem reflect_fail_writes_nothing (k msg : Bytes) :
    addTo (.refl k none msg) = [strPrim (sfx k "Error") msg] := by simp [addTo, errCall]

/-- an object or array is always closed, error or not: the bytes of a failing marshaler field are those of the
    succeeding one followed by the report member -/
theorem array_close_always (sp : Bool) (k : Bytes) (body : List AC) (msg : Bytes) (first : Bool) :
    (outO sp first (addTo (.arr k body (some msg)))).1 =
      (outO sp first (addTo (.arr k body none))).1 ++ (outO sp false [strPrim (sfx k "Error") msg]).1 := by
  simp [addTo, errCall, outO, strPrim, List.append_assoc]

/-- zap.Stringers: a nil element is rendered "<nil>", a panicking element ends the (closed) array and is
    reported under `<key>Error`; in every case the field is well-formed -/
theorem stringers_contained (k : Bytes) (os : List Entry.Outcome) : FieldOK (stringersField k os) := by
  unfold stringersField
  show GoodA (stringersBody os).1
  induction os with
  | nil => exact ⟨by simp [stringersBody, WFa], by simp [stringersBody, NoCtlA]⟩
  | cons o r ih =>
    cases o with
    | ok s => exact ⟨by simpa [stringersBody, WFa, WFj, esc_ok] using ih.1, by simpa [stringersBody, NoCtlA, NoCtlJ] using ih.2⟩
    | nilRecv => exact ⟨by simpa [stringersBody, WFa, WFj, esc_ok] using ih.1, by simpa [stringersBody, NoCtlA, NoCtlJ] using ih.2⟩
    | panic m => exact ⟨by simp [stringersBody, WFa], by simp [stringersBody, NoCtlA]⟩

/-- zap.Errors: every element — plain, verbose, a group with causes, nil pointer, panicking — yields a closed,
    well-formed object; a failing element reports itself inside its own object and the array goes on -/
theorem errors_field_contained (k : Bytes) (es : List ErrV) : FieldOK (errorsField k es) := by
  unfold errorsField
  show GoodA (es.map fun e => AC.obj (addTo (.error (litStr "error") e)))
  induction es with
  | nil => exact ⟨by simp [WFa], by simp [NoCtlA]⟩
  | cons e r ih =>
    have he := addTo_good (.error (litStr "error") e) trivial
    exact ⟨by simpa [WFa] using ⟨he.1, ih.1⟩, by simpa [NoCtlA] using ⟨he.2, ih.2⟩⟩

/-! ### sinks and cores -/

/-- every sink under every accepting core receives the entry, whatever any other sink or core returned -/
theorem ce_write_all_cores (c : Core) :
    (logOnce c).delivered = ((accepted c).flatMap sinksOf).map (·.id) := rfl

/-- delivery does not depend on the outcomes at all: flipping every error flag changes nothing -/
theorem delivery_ignores_errors (en : Bool) (sinks : List Sink) :
    (logOnce (.io en sinks)).delivered = (logOnce (.io en (sinks.map fun s => { s with writeErr := false }))).delivered := by
  cases en <;> simp [logOnce, accepted, sinksOf, List.map_map, Function.comp_def]

/-- a tee delivers to each enabled branch: the accepted cores of a tee are those of its branches, in order -/
theorem tee_write_all (cs : List Core) : accepted (.tee cs) = acceptedL cs := by simp [accepted]

/-- all write errors are reported, in order, on exactly one line of the error output; none ⇒ no line -/
theorem errors_all_reported (c : Core) :
    (logOnce c).reported = ((((accepted c).flatMap sinksOf).filter (·.writeErr)).map (·.id)) ∧
    (logOnce c).errorLines = (if (logOnce c).reported.isEmpty then 0 else 1) := ⟨rfl, rfl⟩

/-- non-vacuity: a tee whose first branch fails still delivers to the second and reports the failure -/
example : logOnce (.tee [.io true [⟨0, true, false⟩], .io false [⟨1, false, false⟩], .wrap (.tee [.io true [⟨2, false, false⟩, ⟨3, true, false⟩]])]) =
    ⟨[0, 2, 3], [0, 3], 1⟩ := by decide

end ZapVerif.C10

/-! ## `CheckedEntry.Write` IS the source (Go→GoMini translation, docs/TRANSLATOR.md)

`Gen/TransCE.lean` holds the body of `(*CheckedEntry).Write` as read from zapcore/entry.go on this run.  Every call it
makes to the outside is a recorded intrinsic; the theorem gives the exact trace for EVERY list of cores and every
combination of write outcomes: each core written once, in order, whatever the earlier ones returned; one
`Fprintf` + `Sync` on the ErrorOutput iff some write failed (and an ErrorOutput is set), carrying ALL errors in order;
then the hook, unconditionally, if one is set; then the pool put — in this order. -/
namespace ZapVerif.C10
set_option linter.unusedSimpArgs false
open ZapVerif ZapVerif.Deliver ZapVerif.GoMini ZapVerif.TransCE ZapVerif.Gen.TransCE

/-- loop variables of the core loop after an iteration (absent before the first) -/
def ceTail : Option (Int × List Val) → Env
  | none => []
  | some (i, e) => [("l1", .int i), ("l2", .list e)]

/-- state at the head of the core loop: errors so far, trace so far -/
def ceAbs (eo after : List Val) (cores : List Val) (time entry self fs : Val)
    (a : (List Val × List Val) × Option (Int × List Val)) : State :=
  ⟨[("p0", fs), ("l0", .list a.1.1)] ++ ceTail a.2, ceFld false true eo after cores time entry self a.1.2⟩

def ceStep (entry fs : Val) (a : (List Val × List Val) × Option (Int × List Val)) (i : Nat) (c : Nat × List Val) :
    (List Val × List Val) × Option (Int × List Val) :=
  ((a.1.1 ++ c.2, a.1.2 ++ [evCore (coreOf c) entry fs]), some ((i : Int), c.2))

theorem ceStep_fold (entry fs : Val) : ∀ (l : List ((Nat × List Val) × Nat)) (a : (List Val × List Val) × Option (Int × List Val)),
    (l.foldl (fun a q => ceStep entry fs a q.2 q.1) a).1 =
      (a.1.1 ++ l.flatMap (·.1.2), a.1.2 ++ l.map (fun q => evCore (coreOf q.1) entry fs))
  | [], a => by simp
  | q :: l, a => by
    simp only [List.foldl_cons]
    rw [ceStep_fold entry fs l]
    simp [ceStep, List.append_assoc]

/-- the core loop of `CheckedEntry.Write`: every core is written, in order, with the entry and the fields; the
    errors are only collected -/
theorem CheckedEntry_Write_loop_matches_source (cs : List (Nat × List Val)) (eo after : List Val)
    (time entry self fs : Val) (ev : List Val) (rec : Stmt → State → GoMini.Out) :
    ∃ t, execS X rec Write_loop0
        (ceAbs eo after (cs.map coreOf) time entry self fs (([], ev), none)) =
      .normal (ceAbs eo after (cs.map coreOf) time entry self fs
        ((cs.flatMap (·.2), ev ++ cs.map fun c => evCore (coreOf c) entry fs), t)) := by
  have hiter : ∀ (a : (List Val × List Val) × Option (Int × List Val)) (i : Nat) (c : Nat × List Val),
      cs[i]? = some c →
      (match Write_loop0 with
        | .range k v _ body => execS X rec body
            (((ceAbs eo after (cs.map coreOf) time entry self fs a).assign1 k (.int i)).assign1 v (coreOf c))
        | _ => .oof) = .normal (ceAbs eo after (cs.map coreOf) time entry self fs (ceStep entry fs a i c)) := by
    intro ⟨⟨acc, tr⟩, t⟩ i c hc
    have hidx := indexVal_list_map coreOf cs i c hc
    cases t <;> simp [Write_loop0, ceAbs, ceTail, ceStep, hidx, evCore, nm_coreWrite]
  unfold Write_loop0 at hiter ⊢
  rw [execS_range]
  have hfold := rangeRun_fold_at (execS X rec _) _ _
    (ceAbs eo after (cs.map coreOf) time entry self fs) coreOf
    (ceStep entry fs) cs hiter cs 0 (([], ev), none) (by simp)
  refine ⟨((cs.zipIdx).foldl (fun a q => ceStep entry fs a q.2 q.1) (([], ev), none)).2, ?_⟩
  have hcs : evalE X (ceAbs eo after (cs.map coreOf) time entry self fs (([], ev), none)) (.fld "cores") =
      .ok (.list (cs.map coreOf)) := by simp [ceAbs]
  rw [hcs]
  simp only [Res.out_ok]
  refine Eq.trans hfold ?_
  congr 2
  refine Prod.ext ?_ rfl
  rw [ceStep_fold, zipIdx_flatMap_fst (fun c : Nat × List Val => c.2), zipIdx_map_fst (fun c => evCore (coreOf c) entry fs)]
  simp

/-- `(*CheckedEntry).Write(fields…)` on a fresh (non-nil, not dirty) entry, for EVERY list of cores and write outcomes:
    the entry is marked dirty and the calls made are exactly `TransCE.expected` — all cores in order, the error line
    (+ Sync) iff some write failed and an ErrorOutput is set, with every error in order, then the hook if set
    (whatever the writes returned), then the pool put last -/
theorem CheckedEntry_Write_matches_source (cs : List (Nat × List Val)) (eo after : List Val)
    (time entry self fs : Val) (ev : List Val) (fuel : Nat) :
    run X (fuel + 1) "Write" [fs] (ceFld false false eo after (cs.map coreOf) time entry self ev) =
      .done [] (ceFld false true eo after (cs.map coreOf) time entry self
        (ev ++ expected cs eo after time entry self fs)) := by
  refine run_of_fin X _ _ Gen.TransCE.Write [fs] _ _ _ rfl rfl ?_
  show (exec X (fuel + 1) Write_body ⟨[("p0", fs)], _⟩).fin = _
  rw [exec_succ]
  obtain ⟨t, hl⟩ := CheckedEntry_Write_loop_matches_source cs eo after time entry self fs ev (exec X fuel)
  simp only [ceAbs, ceTail, List.append_nil] at hl
  have hpos : ∀ n : Nat, ¬ ((n : Int) + 1 = 0) := by intro n; omega
  simp only [expected]
  generalize cs.flatMap (fun x => x.2) = E at hl ⊢
  cases E <;> cases eo <;> cases after <;> cases t <;>
    simp [Write_body, hl, ceTail, evErrLine, evErrSync, evHook, evPut, nm_fprintf, nm_sync, nm_hook, nm_put,
      nm_errfmt, List.append_assoc, hpos]

/-- a nil `*CheckedEntry`: `Write` does nothing at all -/
theorem CheckedEntry_Write_nil_matches_source (dirty : Bool) (eo after cores : List Val) (time entry self fs : Val)
    (ev : List Val) (fuel : Nat) :
    run X (fuel + 1) "Write" [fs] (ceFld true dirty eo after cores time entry self ev) =
      .done [] (ceFld true dirty eo after cores time entry self ev) := by
  refine run_of_fin X _ _ Gen.TransCE.Write [fs] _ _ _ rfl rfl ?_
  show (exec X (fuel + 1) Write_body ⟨[("p0", fs)], _⟩).fin = _
  rw [exec_succ]
  simp [Write_body]

/-- a dirty entry (re-used after it went back to the pool): no core is written, no hook runs, nothing is put back;
    only the re-use report goes to the ErrorOutput, if there is one -/
theorem CheckedEntry_Write_dirty_matches_source (eo after cores : List Val) (time entry self fs : Val)
    (ev : List Val) (fuel : Nat) :
    run X (fuel + 1) "Write" [fs] (ceFld false true eo after cores time entry self ev) =
      .done [] (ceFld false true eo after cores time entry self
        (ev ++ if eo = [] then [] else [evReuse eo time entry, evErrSync eo])) := by
  refine run_of_fin X _ _ Gen.TransCE.Write [fs] _ _ _ rfl rfl ?_
  show (exec X (fuel + 1) Write_body ⟨[("p0", fs)], _⟩).fin = _
  rw [exec_succ]
  have hpos : ∀ n : Nat, ¬ ((n : Int) + 1 = 0) := by intro n; omega
  cases eo <;> simp [Write_body, evReuse, evErrSync, nm_fprintf, nm_sync, nm_reusefmt, hpos]

/-! ### reading the trace as `Deliver.ceWrite`

`Deliver.ceWrite c after` describes a log call at the level of SINKS: the cores of the checked entry are `accepted c`,
and a core's `Write` reaches `sinksOf core` and fails iff one of them fails (what `ioCore.Write`, `multiCore.Write` and
`multiWriteSyncer.Write` do — their own `…_matches_source` theorems).  Under that reading the recorded trace of
`CheckedEntry.Write` is `Deliver.ceWrite`. -/

/-- the core value for a `Deliver.Core`: position and the ids of its failing sinks -/
def dcore (p : Deliver.Core × Nat) : Nat × List Val :=
  (p.2, ((sinksOf p.1).filter (·.writeErr)).map fun s => Val.int s.id)

/-- a recorded call as sink-level events: a `Core.Write` of the core at position `i` reaches that core's sinks, the
    `Fprintf` on the ErrorOutput is the failure line, `hook.OnWrite` is the loss of control; `Sync` and the pool put
    are not events of `Deliver` -/
def readEv (cores : List Deliver.Core) : Val → List Deliver.DEv
  | .list (.bytes n :: rest) =>
    if n = [67, 111, 114, 101, 46, 87, 114, 105, 116, 101] then
      (match rest with
       | .list (.int i :: _) :: _ =>
         (match cores[i.toNat]? with | some c => (sinksOf c).map fun s => Deliver.DEv.wrote s.id | none => [])
       | _ => [])
    else if n = [104, 111, 111, 107, 46, 79, 110, 87, 114, 105, 116, 101] then [Deliver.DEv.term]
    else if n = [102, 109, 116, 46, 70, 112, 114, 105, 110, 116, 102] then [Deliver.DEv.errLine]
    else []
  | _ => []

theorem readEv_cores (entry fs : Val) (pre : List Deliver.Core) :
    ∀ (l : List Deliver.Core),
      ((l.zipIdx pre.length).map fun p => evCore (coreOf (dcore p)) entry fs).flatMap (readEv (pre ++ l)) =
        (l.flatMap sinksOf).map fun s => Deliver.DEv.wrote s.id
  | [] => by simp
  | c :: l => by
    have ih := readEv_cores entry fs (pre ++ [c]) l
    simp only [List.length_append, List.length_singleton, List.append_assoc, List.singleton_append] at ih
    simp only [List.zipIdx_cons, List.map_cons, List.flatMap_cons, ih, List.map_append]
    congr 1
    simp [readEv, evCore, coreOf, coreV, dcore, nm_coreWrite]

theorem dcore_errs (l : List Deliver.Core) (k : Nat) :
    ((l.zipIdx k).map dcore).flatMap (·.2) = ((l.flatMap sinksOf).filter (·.writeErr)).map fun s => Val.int s.id := by
  induction l generalizing k with
  | nil => simp
  | cons c l ih => simp [List.zipIdx_cons, dcore, ih]

/-- the recorded trace of `CheckedEntry.Write`, read at sink level, is `Deliver.ceWrite` — the function
    `ce_write_all_cores`, `errors_all_reported` and C06's `terminal_despite_sink_failures` are stated over -/
theorem CheckedEntry_Write_is_ceWrite (c : Deliver.Core) (eo : Val) (after : List Val) (time entry self fs : Val) :
    (expected ((accepted c).zipIdx.map dcore) [eo] after time entry self fs).flatMap (readEv (accepted c)) =
      Deliver.ceWrite c (decide (after ≠ [])) := by
  have h1 := readEv_cores entry fs [] (accepted c)
  simp only [List.length_nil, List.nil_append] at h1
  have h2 := dcore_errs (accepted c) 0
  simp only [expected, Deliver.ceWrite, List.flatMap_append, List.map_map, Function.comp_def] at h1 ⊢
  rw [h1, h2]
  by_cases he : ((accepted c).flatMap sinksOf).filter (·.writeErr) = [] <;> cases after <;>
    simp [he, readEv, evErrLine, evErrSync, evHook, evPut, nm_fprintf, nm_sync, nm_hook, nm_put]

end ZapVerif.C10

/-! ## `ioCore.Write`, `multiCore.Write/Sync`, `hooked.Write` ARE the source (table `Gen/TransCores.lean`)

What a core's `Write` does with the entry, for every scripted outcome of the encoder, the sink, the sub-cores and the
hook functions (the calls are recorded in `ev`):
* `ioCore.Write`: encode; an encoder error is returned and nothing is written; otherwise ONE `out.Write` with the
  encoded bytes; a write error is returned as it is and no Sync follows; otherwise `out.Sync` iff the level is above
  Error, its error ignored, and `nil` is returned;
* `multiCore.Write` / `multiCore.Sync`: every sub-core is called, in order, whatever the earlier ones returned, and
  ALL errors are returned in order;
* `hooked.Write`: every hook function is called with the entry, in order; all errors returned. -/
namespace ZapVerif.C10
set_option linter.unusedSimpArgs false
open ZapVerif ZapVerif.GoMini ZapVerif.TransCores ZapVerif.Gen.TransCores

def evEnc (enc ent fs : Val) : Val := .list [TransCores.nm "Encoder.EncodeEntry", enc, ent, fs]
def evOutWrite (out : Val) (b : Bytes) : Val := .list [TransCores.nm "WriteSyncer.Write", out, .bytes b]
def evOutSync (out : Val) : Val := .list [TransCores.nm "WriteSyncer.Sync", out]

/-- `(*ioCore).Sync()` is `c.out.Sync()` -/
theorem ioCore_Sync_matches_source (P : Par) (enc self : Val) (n : Int) (werrs serrs ev : List Val) (fuel : Nat) :
    run (X P) (fuel + 1) "ioCore_Sync" [] (ioFld enc (sinkV n werrs serrs) self ev) =
      .done [.list serrs] (ioFld enc (sinkV n werrs serrs) self (ev ++ [evOutSync (sinkV n werrs serrs)])) := by
  refine run_of_fin (X P) _ _ Gen.TransCores.ioCore_Sync [] _ _ _ rfl rfl ?_
  show (exec (X P) (fuel + 1) ioCore_Sync_body ⟨[], _⟩).fin = _
  rw [exec_succ]
  simp [ioCore_Sync_body, evOutSync, nm_wsync]

/-- what `ioCore.Write` returns and records -/
def ioWriteSpec (l : Int) (enc : Val) (out : Val) (b : Bytes) (eerrs werrs : List Val) (ent fs : Val) : List Val × List Val :=
  if eerrs ≠ [] then (eerrs, [evEnc enc ent fs])
  else if werrs ≠ [] then (werrs, [evEnc enc ent fs, evOutWrite out b])
  else ([], [evEnc enc ent fs, evOutWrite out b] ++ (if l > 2 then [evOutSync out] else []))

/-- `(*ioCore).Write(ent, fields)` for every outcome of the encoder and the sink -/
theorem ioCore_Write_matches_source (P : Par) (l : Int) (fs self : Val) (b : Bytes) (eerrs : List Val)
    (n : Int) (werrs serrs ev : List Val) (fuel : Nat) :
    run (X P) (fuel + 2) "ioCore_Write" [entV l, fs] (ioFld (encV b eerrs) (sinkV n werrs serrs) self ev) =
      .done [.list (ioWriteSpec l (encV b eerrs) (sinkV n werrs serrs) b eerrs werrs (entV l) fs).1]
        (ioFld (encV b eerrs) (sinkV n werrs serrs) self
          (ev ++ (ioWriteSpec l (encV b eerrs) (sinkV n werrs serrs) b eerrs werrs (entV l) fs).2)) := by
  refine run_of_fin (X P) _ _ Gen.TransCores.ioCore_Write [entV l, fs] _ _ _ rfl rfl ?_
  show (exec (X P) (fuel + 2) ioCore_Write_body ⟨[("p0", entV l), ("p1", fs)], _⟩).fin = _
  rw [exec_succ]
  have hsync : ∀ (σ : State) (ev' : List Val), retK σ [.blank] "ioCore_Sync"
      (exec (X P) (fuel + 1) ioCore_Sync_body ⟨[], ioFld (encV b eerrs) (sinkV n werrs serrs) self ev'⟩) =
      .normal { σ with fld := ioFld (encV b eerrs) (sinkV n werrs serrs) self (ev' ++ [evOutSync (sinkV n werrs serrs)]) } := by
    intro σ ev'
    have h : (exec (X P) (fuel + 1) ioCore_Sync_body ⟨[], ioFld (encV b eerrs) (sinkV n werrs serrs) self ev'⟩).fin =
        some ([.list serrs], ioFld (encV b eerrs) (sinkV n werrs serrs) self (ev' ++ [evOutSync (sinkV n werrs serrs)])) := by
      rw [exec_succ]; simp [ioCore_Sync_body, evOutSync, nm_wsync]
    simpa [State.assign1] using retK_of_fin1 σ .blank "ioCore_Sync" _ _ _ h
  have hpos : ∀ k : Nat, ¬ ((k : Int) + 1 = 0) := by intro k; omega
  by_cases hl : l > 2 <;> cases eerrs <;> cases werrs <;>
    simp [ioCore_Write_body, ioWriteSpec, entV, indexVal, hl, hsync, evEnc, evOutWrite, evOutSync, nm_enc, nm_wwrite, hpos,
      List.append_assoc]


/-- a sub-core of a tee, by (id, write errors, sync errors) -/
def mcSub (c : Nat × List Val × List Val) : Val := subV c.1 c.2.1 c.2.2
/-- a hook function, by (id, errors, unused) -/
def hkFn (c : Nat × List Val × List Val) : Val := fnV c.1 c.2.1

/-- loop variables of `multiCore.Write` after an iteration -/
def mcwTail : Option (Int × List Val) → Env
  | none => []
  | some (i, e) => [("l1", .int i), ("l2", .list e)]

def mcwAbs (mc : List Val) (ent fs : Val) (a : (List Val × List Val) × Option (Int × List Val)) : State :=
  ⟨[("p0", ent), ("p1", fs), ("l0", .list a.1.1)] ++ mcwTail a.2, mcFld mc a.1.2⟩

def mcwEv (ent fs : Val) (c : Val) : Val := .list ([TransCores.nm "Core.Write", c, ent, fs])

def mcwStep (ent fs : Val) (a : (List Val × List Val) × Option (Int × List Val)) (i : Nat) (c : Nat × List Val × List Val) :
    (List Val × List Val) × Option (Int × List Val) :=
  ((a.1.1 ++ c.2.1, a.1.2 ++ [mcwEv ent fs (mcSub c)]), some ((i : Int), c.2.1))

theorem mcwStep_fold (ent fs : Val) : ∀ (l : List ((Nat × List Val × List Val) × Nat))
    (a : (List Val × List Val) × Option (Int × List Val)),
    (l.foldl (fun a q => mcwStep ent fs a q.2 q.1) a).1 =
      (a.1.1 ++ l.flatMap (fun q => q.1.2.1), a.1.2 ++ l.map (fun q => mcwEv ent fs (mcSub q.1)))
  | [], a => by simp
  | q :: l, a => by
    simp only [List.foldl_cons]
    rw [mcwStep_fold ent fs l]
    simp [mcwStep, List.append_assoc]

/-- the loop of `multiCore.Write`: every element is called, in order; the errors are only collected -/
theorem multiCore_Write_loop_matches_source (P : Par) (cs : List (Nat × List Val × List Val)) (ent fs : Val) (ev : List Val)
    (rec : Stmt → State → GoMini.Out) :
    ∃ t, execS (X P) rec multiCore_Write_loop0 (mcwAbs (cs.map mcSub) ent fs (([], ev), none)) =
      .normal (mcwAbs (cs.map mcSub) ent fs
        ((cs.flatMap (fun c => c.2.1), ev ++ cs.map fun c => mcwEv ent fs (mcSub c)), t)) := by
  have hiter : ∀ (a : (List Val × List Val) × Option (Int × List Val)) (i : Nat) (c : Nat × List Val × List Val),
      cs[i]? = some c →
      (match multiCore_Write_loop0 with
        | .range k v _ body => execS (X P) rec body
            (((mcwAbs (cs.map mcSub) ent fs a).assign1 k (.int i)).assign1 v (mcSub c))
        | _ => .oof) = .normal (mcwAbs (cs.map mcSub) ent fs (mcwStep ent fs a i c)) := by
    intro ⟨⟨acc, tr⟩, t⟩ i c hc
    have hidx := indexVal_list_map mcSub cs i c hc
    obtain ⟨id, we, se⟩ := c
    simp only [mcSub] at hidx
    cases t <;> simp [multiCore_Write_loop0, mcwAbs, mcwTail, mcwStep, hidx, mcwEv, mcSub, nm_cwrite, subV, fnV]
  unfold multiCore_Write_loop0 at hiter ⊢
  rw [execS_range]
  have hfold := rangeRun_fold_at (execS (X P) rec _) _ _ (mcwAbs (cs.map mcSub) ent fs) mcSub
    (mcwStep ent fs) cs hiter cs 0 (([], ev), none) (by simp)
  refine ⟨((cs.zipIdx).foldl (fun a q => mcwStep ent fs a q.2 q.1) (([], ev), none)).2, ?_⟩
  have hcs : evalE (X P) (mcwAbs (cs.map mcSub) ent fs (([], ev), none)) (.fld "mc") = .ok (.list (cs.map mcSub)) := by
    simp [mcwAbs]
  rw [hcs]
  simp only [Res.out_ok]
  refine Eq.trans hfold ?_
  congr 2
  refine Prod.ext ?_ rfl
  rw [mcwStep_fold, zipIdx_flatMap_fst (fun c : Nat × List Val × List Val => c.2.1),
    zipIdx_map_fst (fun c => mcwEv ent fs (mcSub c))]
  simp

/-- `multiCore.Write` for every number of elements and every outcome -/
theorem multiCore_Write_matches_source (P : Par) (cs : List (Nat × List Val × List Val)) (ent fs : Val) (ev : List Val) (fuel : Nat) :
    run (X P) (fuel + 1) "multiCore_Write" [ent, fs] (mcFld (cs.map mcSub) ev) =
      .done [.list (cs.flatMap fun c => c.2.1)]
        (mcFld (cs.map mcSub) (ev ++ cs.map fun c => mcwEv ent fs (mcSub c))) := by
  refine run_of_fin (X P) _ _ Gen.TransCores.multiCore_Write [ent, fs] _ _ _ rfl rfl ?_
  show (exec (X P) (fuel + 1) multiCore_Write_body ⟨[("p0", ent), ("p1", fs)], _⟩).fin = _
  rw [exec_succ]
  obtain ⟨t, hl⟩ := multiCore_Write_loop_matches_source P cs ent fs ev (exec (X P) fuel)
  simp only [mcwAbs, mcwTail, List.append_nil] at hl
  cases t <;> simp [multiCore_Write_body, hl, mcwTail]

/-- loop variables of `multiCore.Sync` after an iteration -/
def mcsTail : Option (Int × List Val) → Env
  | none => []
  | some (i, e) => [("l1", .int i), ("l2", .list e)]

def mcsAbs (mc : List Val) (a : (List Val × List Val) × Option (Int × List Val)) : State :=
  ⟨[("l0", .list a.1.1)] ++ mcsTail a.2, mcFld mc a.1.2⟩

def mcsEv (_u : Unit) (c : Val) : Val := .list ([TransCores.nm "Core.Sync", c])

def mcsStep (_u : Unit) (a : (List Val × List Val) × Option (Int × List Val)) (i : Nat) (c : Nat × List Val × List Val) :
    (List Val × List Val) × Option (Int × List Val) :=
  ((a.1.1 ++ c.2.2, a.1.2 ++ [mcsEv () (mcSub c)]), some ((i : Int), c.2.2))

theorem mcsStep_fold (_u : Unit) : ∀ (l : List ((Nat × List Val × List Val) × Nat))
    (a : (List Val × List Val) × Option (Int × List Val)),
    (l.foldl (fun a q => mcsStep () a q.2 q.1) a).1 =
      (a.1.1 ++ l.flatMap (fun q => q.1.2.2), a.1.2 ++ l.map (fun q => mcsEv () (mcSub q.1)))
  | [], a => by simp
  | q :: l, a => by
    simp only [List.foldl_cons]
    rw [mcsStep_fold () l]
    simp [mcsStep, List.append_assoc]

/-- the loop of `multiCore.Sync`: every element is called, in order; the errors are only collected -/
theorem multiCore_Sync_loop_matches_source (P : Par) (cs : List (Nat × List Val × List Val)) (_u : Unit) (ev : List Val)
    (rec : Stmt → State → GoMini.Out) :
    ∃ t, execS (X P) rec multiCore_Sync_loop0 (mcsAbs (cs.map mcSub) (([], ev), none)) =
      .normal (mcsAbs (cs.map mcSub)
        ((cs.flatMap (fun c => c.2.2), ev ++ cs.map fun c => mcsEv () (mcSub c)), t)) := by
  have hiter : ∀ (a : (List Val × List Val) × Option (Int × List Val)) (i : Nat) (c : Nat × List Val × List Val),
      cs[i]? = some c →
      (match multiCore_Sync_loop0 with
        | .range k v _ body => execS (X P) rec body
            (((mcsAbs (cs.map mcSub) a).assign1 k (.int i)).assign1 v (mcSub c))
        | _ => .oof) = .normal (mcsAbs (cs.map mcSub) (mcsStep () a i c)) := by
    intro ⟨⟨acc, tr⟩, t⟩ i c hc
    have hidx := indexVal_list_map mcSub cs i c hc
    obtain ⟨id, we, se⟩ := c
    simp only [mcSub] at hidx
    cases t <;> simp [multiCore_Sync_loop0, mcsAbs, mcsTail, mcsStep, hidx, mcsEv, mcSub, nm_csync, subV, fnV]
  unfold multiCore_Sync_loop0 at hiter ⊢
  rw [execS_range]
  have hfold := rangeRun_fold_at (execS (X P) rec _) _ _ (mcsAbs (cs.map mcSub)) mcSub
    (mcsStep ()) cs hiter cs 0 (([], ev), none) (by simp)
  refine ⟨((cs.zipIdx).foldl (fun a q => mcsStep () a q.2 q.1) (([], ev), none)).2, ?_⟩
  have hcs : evalE (X P) (mcsAbs (cs.map mcSub) (([], ev), none)) (.fld "mc") = .ok (.list (cs.map mcSub)) := by
    simp [mcsAbs]
  rw [hcs]
  simp only [Res.out_ok]
  refine Eq.trans hfold ?_
  congr 2
  refine Prod.ext ?_ rfl
  rw [mcsStep_fold, zipIdx_flatMap_fst (fun c : Nat × List Val × List Val => c.2.2),
    zipIdx_map_fst (fun c => mcsEv () (mcSub c))]
  simp
  all_goals exact ()

/-- `multiCore.Sync` for every number of elements and every outcome -/
theorem multiCore_Sync_matches_source (P : Par) (cs : List (Nat × List Val × List Val)) (_u : Unit) (ev : List Val) (fuel : Nat) :
    run (X P) (fuel + 1) "multiCore_Sync" [] (mcFld (cs.map mcSub) ev) =
      .done [.list (cs.flatMap fun c => c.2.2)]
        (mcFld (cs.map mcSub) (ev ++ cs.map fun c => mcsEv () (mcSub c))) := by
  refine run_of_fin (X P) _ _ Gen.TransCores.multiCore_Sync [] _ _ _ rfl rfl ?_
  show (exec (X P) (fuel + 1) multiCore_Sync_body ⟨[], _⟩).fin = _
  rw [exec_succ]
  obtain ⟨t, hl⟩ := multiCore_Sync_loop_matches_source P cs () ev (exec (X P) fuel)
  simp only [mcsAbs, mcsTail, List.append_nil] at hl
  cases t <;> simp [multiCore_Sync_body, hl, mcsTail]

/-- loop variables of `hooked.Write` after an iteration -/
def hkwTail : Option (Int × List Val) → Env
  | none => []
  | some (i, e) => [("l1", .int i), ("l2", .list e)]

def hkwAbs (core : Val) (funcs : List Val) (self ent fs : Val) (a : (List Val × List Val) × Option (Int × List Val)) : State :=
  ⟨[("p0", ent), ("p1", fs), ("l0", .list a.1.1)] ++ hkwTail a.2, hkFld core funcs self a.1.2⟩

def hkwEv (ent : Val) (c : Val) : Val := .list ([TransCores.nm "HookFn", c, ent])

def hkwStep (ent : Val) (a : (List Val × List Val) × Option (Int × List Val)) (i : Nat) (c : Nat × List Val × List Val) :
    (List Val × List Val) × Option (Int × List Val) :=
  ((a.1.1 ++ c.2.1, a.1.2 ++ [hkwEv ent (hkFn c)]), some ((i : Int), c.2.1))

theorem hkwStep_fold (ent : Val) : ∀ (l : List ((Nat × List Val × List Val) × Nat))
    (a : (List Val × List Val) × Option (Int × List Val)),
    (l.foldl (fun a q => hkwStep ent a q.2 q.1) a).1 =
      (a.1.1 ++ l.flatMap (fun q => q.1.2.1), a.1.2 ++ l.map (fun q => hkwEv ent (hkFn q.1)))
  | [], a => by simp
  | q :: l, a => by
    simp only [List.foldl_cons]
    rw [hkwStep_fold ent l]
    simp [hkwStep, List.append_assoc]

/-- the loop of `hooked.Write`: every element is called, in order; the errors are only collected -/
theorem hooked_Write_loop_matches_source (P : Par) (cs : List (Nat × List Val × List Val)) (core self ent fs : Val) (ev : List Val)
    (rec : Stmt → State → GoMini.Out) :
    ∃ t, execS (X P) rec hooked_Write_loop0 (hkwAbs core (cs.map hkFn) self ent fs (([], ev), none)) =
      .normal (hkwAbs core (cs.map hkFn) self ent fs
        ((cs.flatMap (fun c => c.2.1), ev ++ cs.map fun c => hkwEv ent (hkFn c)), t)) := by
  have hiter : ∀ (a : (List Val × List Val) × Option (Int × List Val)) (i : Nat) (c : Nat × List Val × List Val),
      cs[i]? = some c →
      (match hooked_Write_loop0 with
        | .range k v _ body => execS (X P) rec body
            (((hkwAbs core (cs.map hkFn) self ent fs a).assign1 k (.int i)).assign1 v (hkFn c))
        | _ => .oof) = .normal (hkwAbs core (cs.map hkFn) self ent fs (hkwStep ent a i c)) := by
    intro ⟨⟨acc, tr⟩, t⟩ i c hc
    have hidx := indexVal_list_map hkFn cs i c hc
    obtain ⟨id, we, se⟩ := c
    simp only [hkFn] at hidx
    cases t <;> simp [hooked_Write_loop0, hkwAbs, hkwTail, hkwStep, hidx, hkwEv, hkFn, nm_fn, subV, fnV]
  unfold hooked_Write_loop0 at hiter ⊢
  rw [execS_range]
  have hfold := rangeRun_fold_at (execS (X P) rec _) _ _ (hkwAbs core (cs.map hkFn) self ent fs) hkFn
    (hkwStep ent) cs hiter cs 0 (([], ev), none) (by simp)
  refine ⟨((cs.zipIdx).foldl (fun a q => hkwStep ent a q.2 q.1) (([], ev), none)).2, ?_⟩
  have hcs : evalE (X P) (hkwAbs core (cs.map hkFn) self ent fs (([], ev), none)) (.fld "funcs") = .ok (.list (cs.map hkFn)) := by
    simp [hkwAbs]
  rw [hcs]
  simp only [Res.out_ok]
  refine Eq.trans hfold ?_
  congr 2
  refine Prod.ext ?_ rfl
  rw [hkwStep_fold, zipIdx_flatMap_fst (fun c : Nat × List Val × List Val => c.2.1),
    zipIdx_map_fst (fun c => hkwEv ent (hkFn c))]
  simp

/-- `hooked.Write` for every number of elements and every outcome -/
theorem hooked_Write_matches_source (P : Par) (cs : List (Nat × List Val × List Val)) (core self ent fs : Val) (ev : List Val) (fuel : Nat) :
    run (X P) (fuel + 1) "hooked_Write" [ent, fs] (hkFld core (cs.map hkFn) self ev) =
      .done [.list (cs.flatMap fun c => c.2.1)]
        (hkFld core (cs.map hkFn) self (ev ++ cs.map fun c => hkwEv ent (hkFn c))) := by
  refine run_of_fin (X P) _ _ Gen.TransCores.hooked_Write [ent, fs] _ _ _ rfl rfl ?_
  show (exec (X P) (fuel + 1) hooked_Write_body ⟨[("p0", ent), ("p1", fs)], _⟩).fin = _
  rw [exec_succ]
  obtain ⟨t, hl⟩ := hooked_Write_loop_matches_source P cs core self ent fs ev (exec (X P) fuel)
  simp only [hkwAbs, hkwTail, List.append_nil] at hl
  cases t <;> simp [hooked_Write_body, hl, hkwTail]

end ZapVerif.C10
