import ZapVerif.Model.Deliver
import ZapVerif.Proofs.EntryWF
/-! # C10 — field and sink failures are contained and reported; the entry is never lost -/
namespace ZapVerif.C10
open ZapVerif ZapVerif.Esc ZapVerif.Json ZapVerif.Enc ZapVerif.Entry ZapVerif.Deliver

/-- with failures injected at ANY set of positions (marshaler errors, panicking or nil Stringers / errors,
    reflection failures, failing causes inside error groups — `FieldOK` puts no constraint on them), the entry is
    still emitted as one well-formed object on one line -/
theorem field_failure_contained (c : Cfg) (e : Ent) (ctx : List (List Field)) (fields : List Field)
    (he : EntOK e) (hc : ∀ fs ∈ ctx, ∀ f ∈ fs, FieldOK f) (hf : ∀ f ∈ fields, FieldOK f) :
    jsonLine c e ctx fields = render (J.obj (entryMembers c e ctx fields)) ++ c.ending ∧
    WFj (J.obj (entryMembers c e ctx fields)) ∧ (∀ b ∈ render (J.obj (entryMembers c e ctx fields)), b ≥ 32) := by
  have hok := entryMembers_ok c e ctx fields he hc hf
  exact ⟨jsonLine_eq_render c e ctx fields he hc hf, hok.1, render_ge _ hok.1 hok.2⟩

/-- all other fields are intact: what a field contributes does not depend on its neighbours, failing or not -/
theorem siblings_independent (a b : List Field) (f : Field) :
    addFields (a ++ f :: b) = addFields a ++ addTo f ++ addFields b := by
  simp [addFields, List.flatMap_append, List.flatMap_cons]

/-- each failure is reported by a string member `<key>Error` right after what the field managed to write -/
theorem failing_object_reports (k : Bytes) (body : List OC) (msg : Bytes) :
    addTo (.obj k body (some msg)) = [OC.obj k body, strPrim (sfx k "Error") msg] := by simp [addTo, errCall]
theorem failing_array_reports (k : Bytes) (body : List AC) (msg : Bytes) :
    addTo (.arr k body (some msg)) = [OC.arr k body, strPrim (sfx k "Error") msg] := by simp [addTo, errCall]
theorem failing_inline_reports (k : Bytes) (body : List OC) (msg : Bytes) :
    addTo (.inline k body (some msg)) = body ++ [strPrim (sfx k "Error") msg] := by simp [addTo, errCall]
theorem panicking_stringer_reports (k m : Bytes) :
    addTo (.stringer k (.panic m)) = [strPrim (sfx k "Error") (panicText m)] := by simp [addTo, errCall]
theorem nil_stringer_is_nil_text (k : Bytes) : addTo (.stringer k .nilRecv) = [strPrim k nilText] := by simp [addTo]
theorem panicking_error_reports (k m : Bytes) (v : Option Bytes) (g : Bool) (cs : List ErrV) :
    addTo (.error k (.mk (.panic m) v g cs)) = [strPrim (sfx k "Error") (panicText m)] := by
  simp [addTo, encErr, errCall]

/-- a failed reflection writes nothing of its own (encode-before-key), only the report -/
theorem reflect_fail_writes_nothing (k msg : Bytes) :
    addTo (.refl k none msg) = [strPrim (sfx k "Error") msg] := by simp [addTo, errCall]

/-- an object or array is always closed, error or not: the bytes of a failing marshaler field are those of the
    succeeding one followed by the report member -/
theorem array_close_always (sp : Bool) (k : Bytes) (body : List AC) (msg : Bytes) (first : Bool) :
    (outO sp first (addTo (.arr k body (some msg)))).1 =
      (outO sp first (addTo (.arr k body none))).1 ++ (outO sp false [strPrim (sfx k "Error") msg]).1 := by
  simp [addTo, errCall, outO, strPrim, List.append_assoc]

/-- zap.Stringers: a nil element is rendered "<nil>", a panicking element ends the (closed) array and is
    reported under `<key>Error`; in every case the field is well-formed -/
theorem stringers_contained (k : Bytes) (os : List Entry.Outcome) : FieldOK (stringersField k os) := by
  unfold stringersField
  show GoodA (stringersBody os).1
  induction os with
  | nil => exact ⟨by simp [stringersBody, WFa], by simp [stringersBody, NoCtlA]⟩
  | cons o r ih =>
    cases o with
    | ok s => exact ⟨by simpa [stringersBody, WFa, WFj, esc_ok] using ih.1, by simpa [stringersBody, NoCtlA, NoCtlJ] using ih.2⟩
    | nilRecv => exact ⟨by simpa [stringersBody, WFa, WFj, esc_ok] using ih.1, by simpa [stringersBody, NoCtlA, NoCtlJ] using ih.2⟩
    | panic m => exact ⟨by simp [stringersBody, WFa], by simp [stringersBody, NoCtlA]⟩

/-- zap.Errors: every element — plain, verbose, a group with causes, nil pointer, panicking — yields a closed,
    well-formed object; a failing element reports itself inside its own object and the array goes on -/
theorem errors_field_contained (k : Bytes) (es : List ErrV) : FieldOK (errorsField k es) := by
  unfold errorsField
  show GoodA (es.map fun e => AC.obj (addTo (.error (litStr "error") e)))
  induction es with
  | nil => exact ⟨by simp [WFa], by simp [NoCtlA]⟩
  | cons e r ih =>
    have he := addTo_good (.error (litStr "error") e) trivial
    exact ⟨by simpa [WFa] using ⟨he.1, ih.1⟩, by simpa [NoCtlA] using ⟨he.2, ih.2⟩⟩

/-! ### sinks and cores -/

/-- every sink under every accepting core receives the entry, whatever any other sink or core returned -/
theorem ce_write_all_cores (c : Core) :
    (logOnce c).delivered = ((accepted c).flatMap sinksOf).map (·.id) := rfl

/-- delivery does not depend on the outcomes at all: flipping every error flag changes nothing -/
theorem delivery_ignores_errors (en : Bool) (sinks : List Sink) :
    (logOnce (.io en sinks)).delivered = (logOnce (.io en (sinks.map fun s => { s with writeErr := false }))).delivered := by
  cases en <;> simp [logOnce, accepted, sinksOf, List.map_map, Function.comp_def]

/-- a tee delivers to each enabled branch: the accepted cores of a tee are those of its branches, in order -/
theorem tee_write_all (cs : List Core) : accepted (.tee cs) = acceptedL cs := by simp [accepted]

/-- all write errors are reported, in order, on exactly one line of the error output; none ⇒ no line -/
theorem errors_all_reported (c : Core) :
    (logOnce c).reported = ((((accepted c).flatMap sinksOf).filter (·.writeErr)).map (·.id)) ∧
    (logOnce c).errorLines = (if (logOnce c).reported.isEmpty then 0 else 1) := ⟨rfl, rfl⟩

/-- non-vacuity: a tee whose first branch fails still delivers to the second and reports the failure -/
example : logOnce (.tee [.io true [⟨0, true, false⟩], .io false [⟨1, false, false⟩], .wrap (.tee [.io true [⟨2, false, false⟩, ⟨3, true, false⟩]])]) =
    ⟨[0, 2, 3], [0, 3], 1⟩ := by decide

end ZapVerif.C10
