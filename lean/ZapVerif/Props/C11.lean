import ZapVerif.Proofs.Sampler
/-! # C11 — the sampler admits the first N then every Mth entry per level and message per tick

Property theorems only; the model is `Model/Sampler.lean` (+ `Model/SamplerConc.lean` for the atomic-step
machine), helper lemmas are in `Proofs/Sampler.lean`.

Scope notes.
* Timestamps are `Entry.Time.UnixNano()` as unbounded integers. The Go code computes `tn + tick` in int64; every
  theorem that speaks about a *new* window end is stated for the mathematical sum, i.e. under the hypothesis
  `NoOverflow` below (the harness generators keep `|t| ≤ 2^61`, `|tick| ≤ 2^61`).
* `new_window_iff` is the full-strength statement "windows are judged by entry timestamps"; it is FALSE for the
  code as it is (finding F10: the zero value of `resetAt` acts as a window that ends at the epoch), so it is kept
  as a `def … : Prop` with `new_window_iff_partial` and `new_window_iff_fails`. -/
namespace ZapVerif.C11
open ZapVerif ZapVerif.Sampler

/-- the explicit no-overflow hypothesis under which the Int model is the int64 code -/
def NoOverflow (t tick : Int) : Prop := -(2 : Int) ^ 63 ≤ t + tick ∧ t + tick < (2 : Int) ^ 63

example : NoOverflow 1700000000000000000 1000000000 := by unfold NoOverflow; omega

/-! ## windows -/

/-- FULL statement (not provable, see `new_window_iff_fails`): from a fresh counter, every history of
    timestamps gets the window positions of the specification — an entry opens a new window, ending one tick
    later, iff it is the first one or is stamped at or after the end of the current window. -/
def new_window_iff : Prop :=
  ∀ (tick : Int) (ts : List Int), cellRun {} tick ts = specRun none tick ts

/-- what holds: the full statement for every history whose FIRST entry is not before the epoch
    (later entries may carry any timestamp, also negative ones) -/
theorem new_window_iff_partial (tick t0 : Int) (rest : List Int) (h0 : 0 ≤ t0) :
    cellRun {} tick (t0 :: rest) = specRun none tick (t0 :: rest) := by
  have hn : inc ({} : Cell) t0 tick = ({ resetAt := t0 + tick, n := 1 }, 1) := inc_new _ _ _ h0
  simp only [cellRun, specRun, specStep, hn]
  rw [cellRun_eq_specRun_some]

/-- … in particular for every history without pre-epoch timestamps -/
theorem new_window_iff_partial_nonneg (tick : Int) (ts : List Int) (h : ∀ t ∈ ts, 0 ≤ t) :
    cellRun {} tick ts = specRun none tick ts := by
  cases ts with
  | nil => rfl
  | cons t0 rest => exact new_window_iff_partial tick t0 rest (h t0 (by simp))

/-- F10, the concrete witness (the replay): 5 entries 10 s apart before the epoch, tick 1 s —
    the code keeps counting 1,2,3,4,5 in one never-closing window, the specification opens 5 windows -/
theorem new_window_iff_fails : ¬ new_window_iff := by
  intro h
  have := h 1000000000 [-100000000000, -90000000000, -80000000000, -70000000000, -60000000000]
  revert this
  decide

/-- the witness in numbers: with N = 1, M = 0 the code passes 1 entry where 5 are owed -/
example : (cellRun {} 1000000000 [-100000000000, -90000000000, -80000000000, -70000000000, -60000000000]).countP
            (allows 1 0) = 1 ∧
          (specRun none 1000000000 [-100000000000, -90000000000, -80000000000, -70000000000, -60000000000]).countP
            (allows 1 0) = 5 := by decide

/-- one step, both directions: for a counter that has counted at least one entry, the call returns
    position 1 with the window end moved to `t + tick` iff the entry is at or after the current end;
    otherwise it takes the next position and the end stays -/
theorem new_window_step_iff (c : Cell) (t tick : Int) (hn : 0 < c.n) :
    ((inc c t tick).2 = 1 ↔ c.resetAt ≤ t) ∧
    (c.resetAt ≤ t → inc c t tick = ({ resetAt := t + tick, n := 1 }, 1)) ∧
    (t < c.resetAt → inc c t tick = ({ c with n := c.n + 1 }, c.n + 1)) := by
  refine ⟨?_, inc_new c t tick, inc_open c t tick⟩
  by_cases h : t < c.resetAt
  · rw [inc_open c t tick h]; constructor
    · intro h1; simp at h1; omega
    · intro h1; omega
  · rw [inc_new c t tick (by omega)]; simp; omega

/-- position in the window = 1 + number of earlier entries since the opener: after an opener at `t0`,
    entries stamped before `t0 + tick` (in any order, equal timestamps included) get positions 2, 3, … -/
theorem window_positions (c : Cell) (tick t0 : Int) (ts : List Int)
    (hopen : c.resetAt ≤ t0) (hin : ∀ t ∈ ts, t < t0 + tick) :
    cellRun c tick (t0 :: ts) = List.range' 1 (ts.length + 1) ∧
    cellAfter c tick (t0 :: ts) = { resetAt := t0 + tick, n := ts.length + 1 } := by
  have h := cellRun_open { resetAt := t0 + tick, n := 1 } tick ts hin
  simp only [cellRun, cellAfter, inc_new c t0 tick hopen, List.range'_succ]
  refine ⟨by rw [h.1], ?_⟩
  rw [h.2]; simp; omega

/-- an entry stamped exactly at the window end is NOT in the window: it opens the next one -/
theorem boundary_opens (c : Cell) (tick : Int) : (inc c c.resetAt tick) = ({ resetAt := c.resetAt + tick, n := 1 }, 1) :=
  inc_new c c.resetAt tick (Int.le_refl _)

/-! ## admission -/

theorem allows_iff (N M n : Nat) : allows N M n = true ↔ n ≤ N ∨ (M ≠ 0 ∧ (n - N) % M = 0) :=
  Sampler.allows_iff N M n

/-- k entries in one window ⇒ `min k N + (k-N)/M` of them pass (none after the first N when M = 0) -/
theorem window_count (N M k : Nat) :
    ((List.range' 1 k).countP (allows N M)) = min k N + (if M = 0 then 0 else (k - N) / M) :=
  countP_window N M k

/-- the two together, on the cell: an opener and `ts` further entries inside its window -/
theorem window_passed (c : Cell) (N M : Nat) (tick t0 : Int) (ts : List Int)
    (hopen : c.resetAt ≤ t0) (hin : ∀ t ∈ ts, t < t0 + tick) :
    ((cellRun c tick (t0 :: ts)).countP (allows N M)) =
      min (ts.length + 1) N + (if M = 0 then 0 else (ts.length + 1 - N) / M) := by
  rw [(window_positions c tick t0 ts hopen hin).1, window_count]

/-! ## keys: per level and hash bucket -/

/-- a Check touches only the counter of its own (level, bucket); every other counter is untouched -/
theorem key_frame (cfg : Cfg) (en : Int → Bool) (cs : Counters) (e : Entry) (k : Key) (hk : k ≠ e.key) :
    (check cfg en cs e).1 k = cs k := by
  by_cases hc : counted en e = true
  · rw [(check_counted cfg en cs e hc).1, set_other _ _ _ _ hk]
  · rw [(check_uncounted cfg en cs e (by simpa using hc)).1]

/-- messages whose hashes agree modulo 4096 use the same counter at the same level (they share a budget),
    and the level is part of the key -/
theorem colliding_share (e₁ e₂ : Entry) :
    e₁.key = e₂.key ↔ e₁.level = e₂.level ∧ (fnv32a e₁.msg).toNat % 4096 = (fnv32a e₂.msg).toNat % 4096 := by
  simp [Entry.key, bucket, numBuckets, Prod.ext_iff]

/-- the counter values seen by the entries of one key, within any run over the whole table, are exactly the run
    of that key's cell over those entries' timestamps: other keys, disabled and out-of-range entries
    do not disturb it -/
theorem key_projection (cfg : Cfg) (en : Int → Bool) (k : Key) (es : List Entry) (cs : Counters) :
    (((runAll cfg en cs es).2.zip es).filter (fun p => sel en k p.2)).map (fun p => p.1.n) =
      (cellRun (cs k) cfg.tick ((es.filter (sel en k)).map (·.t))).map some :=
  (runAll_projects cfg en k es cs).1

/-! ## disabled and out-of-range levels -/

/-- an entry at a disabled level consumes no budget, calls no hook and is not forwarded -/
theorem disabled_no_budget (cfg : Cfg) (en : Int → Bool) (cs : Counters) (e : Entry) (h : en e.level = false) :
    check cfg en cs e = (cs, ⟨[], false, none⟩) := by
  simp [check, h]

/-- an enabled entry with a level outside [Debug, Fatal] passes unsampled: forwarded, no counter, no hook -/
theorem oob_unsampled (cfg : Cfg) (en : Int → Bool) (cs : Counters) (e : Entry)
    (h : en e.level = true) (ho : e.level < -1 ∨ 5 < e.level) :
    check cfg en cs e = (cs, ⟨[], true, none⟩) := by
  have : inRange e.level = false := by
    rcases ho with h1 | h1
    · have : ¬ (-1 ≤ e.level) := by omega
      simp [inRange, minLevel, this]
    · have : ¬ (e.level ≤ 5) := by omega
      simp [inRange, maxLevel, this]
  simp [check, h, this]

/-! ## With -/

/-- a With-derived sampler points to the same counters and hook, and a Check through it has exactly the effect
    on the shared counters, the decision and the hook call of a Check through its parent -/
theorem with_shares_counters (w : World) (s : Samp) (f : Nat) (en : Int → Bool) (e : Entry) :
    (s.with f).ref = s.ref ∧ (s.with f).hookId = s.hookId ∧ (s.with f).cfg = s.cfg ∧
    w.check (s.with f) en e = w.check s en e :=
  ⟨rfl, rfl, rfl, rfl⟩

/-- a separately constructed sampler has its own fresh counters, and Checks through one sampler never touch
    the counters of another -/
theorem new_sampler_independent (w : World) (cfg : Cfg) (h : Nat) (s : Samp) (en : Int → Bool) (e : Entry) :
    (w.newSampler cfg h).1.heap (w.newSampler cfg h).2.ref = Counters.fresh ∧
    (∀ r, r ≠ s.ref → (w.check s en e).1.heap r = w.heap r) := by
  constructor
  · simp [World.newSampler]
  · intro r hr; simp [World.check, hr]

/-! ## the hook -/

/-- every decided entry (enabled, in range) causes exactly one hook call, with the decision that is applied:
    forwarded iff sampled iff the predicate allows the position the counter returned -/
theorem hook_once_with_decision (cfg : Cfg) (en : Int → Bool) (cs : Counters) (e : Entry)
    (h : en e.level = true) (hr : -1 ≤ e.level ∧ e.level ≤ 5) :
    ∃ n d, (check cfg en cs e).2 = ⟨[d], decide (d = .sampled), some n⟩ ∧
      n = (inc (cs e.key) e.t cfg.tick).2 ∧ (d = .sampled ↔ allows cfg.N cfg.M n = true) := by
  have hc : counted en e = true := by
    simp [counted, h, inRange, minLevel, maxLevel, hr.1, hr.2]
  obtain ⟨_, h2, h3, h4⟩ := check_counted cfg en cs e hc
  refine ⟨(inc (cs e.key) e.t cfg.tick).2,
    (if allows cfg.N cfg.M (inc (cs e.key) e.t cfg.tick).2 then .sampled else .dropped), ?_, rfl, ?_⟩
  · cases ho : (check cfg en cs e).2 with
    | mk hk fw n =>
      simp only [ho] at h2 h3 h4
      subst h2 h3 h4
      by_cases ha : allows cfg.N cfg.M (inc (cs e.key) e.t cfg.tick).2 = true <;> simp [ha]
  · by_cases ha : allows cfg.N cfg.M (inc (cs e.key) e.t cfg.tick).2 = true <;> simp [ha]

/-- entries that are not decided (disabled or out of range) cause no hook call -/
theorem hook_not_called_undecided (cfg : Cfg) (en : Int → Bool) (cs : Counters) (e : Entry)
    (h : counted en e = false) : (check cfg en cs e).2.hook = [] :=
  (check_uncounted cfg en cs e h).2.2

/-! ## concurrent use inside an open window -/

/-- for EVERY interleaving of the atomic steps of `k` concurrent `IncCheckReset` calls whose timestamps lie
    inside the already open window, once all calls have returned the values returned are exactly
    `c+1 … c+k` (each once), the counter stands at `c+k`, and the window end is untouched -/
theorem open_window_exact (c : Cell) (ts : List Int) (tick : Int) (sched : List Nat)
    (hopen : ∀ t ∈ ts, t < c.resetAt)
    (hdone : Conc.allDone (Conc.run tick (Conc.initSt c ts) sched) = true) :
    (Conc.rets (Conc.run tick (Conc.initSt c ts) sched).ths).Perm (List.range' (c.n + 1) ts.length) ∧
    (Conc.run tick (Conc.initSt c ts) sched).n = c.n + ts.length ∧
    (Conc.run tick (Conc.initSt c ts) sched).resetAt = c.resetAt := by
  have hinv := Conc.run_inv tick c.resetAt c.n sched _ (Conc.init_inv c ts hopen)
  have hlen : (Conc.rets (Conc.run tick (Conc.initSt c ts) sched).ths).length = ts.length := by
    rw [Conc.rets_length_of_allDone _ hdone, Conc.run_length]; simp [Conc.initSt]
  refine ⟨?_, ?_, hinv.ra⟩
  · have := hinv.perm; rwa [hlen] at this
  · have := hinv.cnt; rwa [hlen] at this

/-- hence the number of admitted entries under any interleaving equals the sequential one
    (each call's decision, hook call and forwarding are functions of the value it got back:
    `hook_once_with_decision`) -/
theorem open_window_count_eq_sequential (c : Cell) (N M : Nat) (ts : List Int) (tick : Int) (sched : List Nat)
    (hopen : ∀ t ∈ ts, t < c.resetAt)
    (hdone : Conc.allDone (Conc.run tick (Conc.initSt c ts) sched) = true) :
    (Conc.rets (Conc.run tick (Conc.initSt c ts) sched).ths).countP (allows N M) =
      (cellRun c tick ts).countP (allows N M) := by
  rw [(open_window_exact c ts tick sched hopen hdone).1.countP_eq, (cellRun_open c tick ts hopen).1]

/-- non-vacuity: a complete interleaving of three calls (loads first, then the adds in another order) -/
example : Conc.allDone (Conc.run 10 (Conc.initSt ⟨100, 4⟩ [7, 7, 50]) [2, 0, 1, 1, 2, 0]) = true ∧
    Conc.rets (Conc.run 10 (Conc.initSt ⟨100, 4⟩ [7, 7, 50]) [2, 0, 1, 1, 2, 0]).ths = [7, 5, 6] := by decide

/-- the hypothesis matters: when calls at the window end race with the reset, a value can be handed out twice
    (the documented "slightly over- or under-sampled"); inside an open window it cannot -/
example : Conc.allDone (Conc.run 10 (Conc.initSt ⟨100, 4⟩ [100, 100, 105]) [0, 1, 0, 0, 2, 2, 1, 1, 1]) = true ∧
    Conc.rets (Conc.run 10 (Conc.initSt ⟨100, 4⟩ [100, 100, 105]) [0, 1, 0, 0, 2, 2, 1, 1, 1]).ths = [1, 2, 2] := by
  decide

end ZapVerif.C11
