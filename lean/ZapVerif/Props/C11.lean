import ZapVerif.Proofs.Sampler
import ZapVerif.Proofs.TransSampler
/-! # C11 — the sampler admits the first N then every Mth entry per level and message per tick

Property theorems only; the model is `Model/Sampler.lean` (+ `Model/SamplerConc.lean` for the atomic-step
machine), helper lemmas are in `Proofs/Sampler.lean`.

Scope notes.
* Timestamps are `Entry.Time.UnixNano()` as unbounded integers. The Go code computes `tn + tick` in int64; every
  theorem that speaks about a *new* window end is stated for the mathematical sum, i.e. under the hypothesis
  `NoOverflow` below (the harness generators keep `|t| ≤ 2^61`, `|tick| ≤ 2^61`).
* `new_window_iff` is the full-strength statement "windows are judged by entry timestamps"; it is FALSE for the
  code as it is (finding F10: the zero value of `resetAt` acts as a window that ends at the epoch), so it is kept
  as a `def … : Prop` with `new_window_iff_partial` and `new_window_iff_fails`. -/
namespace ZapVerif.C11
open ZapVerif ZapVerif.Sampler

/-- the explicit no-overflow hypothesis under which the Int model is the int64 code -/
def NoOverflow (t tick : Int) : Prop := -(2 : Int) ^ 63 ≤ t + tick ∧ t + tick < (2 : Int) ^ 63

example : NoOverflow 1700000000000000000 1000000000 := by unfold NoOverflow; omega

/-! ## windows -/

/-- FULL statement (not provable, see `new_window_iff_fails`): from a fresh counter, every history of
    timestamps gets the window positions of the specification — an entry opens a new window, ending one tick
    later, iff it is the first one or is stamped at or after the end of the current window. -/
def new_window_iff : Prop :=
  ∀ (tick : Int) (ts : List Int), cellRun {} tick ts = specRun none tick ts

/-- what holds: the full statement for every history whose FIRST entry is not before the epoch
    (later entries may carry any timestamp, also negative ones) -/
theorem new_window_iff_partial (tick t0 : Int) (rest : List Int) (h0 : 0 ≤ t0) :
    cellRun {} tick (t0 :: rest) = specRun none tick (t0 :: rest) := by
  have hn : inc ({} : Cell) t0 tick = ({ resetAt := t0 + tick, n := 1 }, 1) := inc_new _ _ _ h0
  simp only [cellRun, specRun, specStep, hn]
  rw [cellRun_eq_specRun_some]

/-- … in particular for every history without pre-epoch timestamps -/
theorem new_window_iff_partial_nonneg (tick : Int) (ts : List Int) (h : ∀ t ∈ ts, 0 ≤ t) :
    cellRun {} tick ts = specRun none tick ts := by
  cases ts with
  | nil => rfl
  | cons t0 rest => exact new_window_iff_partial tick t0 rest (h t0 (by simp))

/-- F10, the concrete witness (the replay): 5 entries 10 s apart before the epoch, tick 1 s —
    the code keeps counting 1,2,3,4,5 in one never-closing window, the specification opens 5 windows -/
theorem new_window_iff_fails : ¬ new_window_iff := by
  intro h
  have := h 1000000000 [-100000000000, -90000000000, -80000000000, -70000000000, -60000000000]
  revert this
  decide

/-- the witness in numbers: with N = 1, M = 0 the code passes 1 entry where 5 are owed -/
example : (cellRun {} 1000000000 [-100000000000, -90000000000, -80000000000, -70000000000, -60000000000]).countP
            (allows 1 0) = 1 ∧
          (specRun none 1000000000 [-100000000000, -90000000000, -80000000000, -70000000000, -60000000000]).countP
            (allows 1 0) = 5 := by decide

/-- one step, both directions: for a counter that has counted at least one entry, the call returns
    position 1 with the window end moved to `t + tick` iff the entry is at or after the current end;
    otherwise it takes the next position and the end stays -/
theorem new_window_step_iff (c : Cell) (t tick : Int) (hn : 0 < c.n) :
    ((inc c t tick).2 = 1 ↔ c.resetAt ≤ t) ∧
    (c.resetAt ≤ t → inc c t tick = ({ resetAt := t + tick, n := 1 }, 1)) ∧
    (t < c.resetAt → inc c t tick = ({ c with n := c.n + 1 }, c.n + 1)) := by
  refine ⟨?_, inc_new c t tick, inc_open c t tick⟩
  by_cases h : t < c.resetAt
  · rw [inc_open c t tick h]; constructor
    · intro h1; simp at h1; omega
    · intro h1; omega
  · rw [inc_new c t tick (by omega)]; simp; omega

/-- position in the window = 1 + number of earlier entries since the opener: after an opener at `t0`,
    entries stamped before `t0 + tick` (in any order, equal timestamps included) get positions 2, 3, … -/
theorem window_positions (c : Cell) (tick t0 : Int) (ts : List Int)
    (hopen : c.resetAt ≤ t0) (hin : ∀ t ∈ ts, t < t0 + tick) :
    cellRun c tick (t0 :: ts) = List.range' 1 (ts.length + 1) ∧
    cellAfter c tick (t0 :: ts) = { resetAt := t0 + tick, n := ts.length + 1 } := by
  have h := cellRun_open { resetAt := t0 + tick, n := 1 } tick ts hin
  simp only [cellRun, cellAfter, inc_new c t0 tick hopen, List.range'_succ]
  refine ⟨by rw [h.1], ?_⟩
  rw [h.2]; simp; omega

/-- an entry stamped exactly at the window end is NOT in the window: it opens the next one -/
theorem boundary_opens (c : Cell) (tick : Int) : (inc c c.resetAt tick) = ({ resetAt := c.resetAt + tick, n := 1 }, 1) :=
  inc_new c c.resetAt tick (Int.le_refl _)

/-! ## admission -/

theorem allows_iff (N M n : Nat) : allows N M n = true ↔ n ≤ N ∨ (M ≠ 0 ∧ (n - N) % M = 0) :=
  Sampler.allows_iff N M n

/-- k entries in one window ⇒ `min k N + (k-N)/M` of them pass (none after the first N when M = 0) -/
theorem window_count (N M k : Nat) :
    ((List.range' 1 k).countP (allows N M)) = min k N + (if M = 0 then 0 else (k - N) / M) :=
  countP_window N M k

/-- the two together, on the cell: an opener and `ts` further entries inside its window -/
theorem window_passed (c : Cell) (N M : Nat) (tick t0 : Int) (ts : List Int)
    (hopen : c.resetAt ≤ t0) (hin : ∀ t ∈ ts, t < t0 + tick) :
    ((cellRun c tick (t0 :: ts)).countP (allows N M)) =
      min (ts.length + 1) N + (if M = 0 then 0 else (ts.length + 1 - N) / M) := by
  rw [(window_positions c tick t0 ts hopen hin).1, window_count]

/-! ## keys: per level and hash bucket -/

/-- a Check touches only the counter of its own (level, bucket); every other counter is untouched -/
theorem key_frame (cfg : Cfg) (en : Int → Bool) (cs : Counters) (e : Entry) (k : Key) (hk : k ≠ e.key) :
    (check cfg en cs e).1 k = cs k := by
  by_cases hc : counted en e = true
  · rw [(check_counted cfg en cs e hc).1, set_other _ _ _ _ hk]
  · rw [(check_uncounted cfg en cs e (by simpa using hc)).1]

/-- messages whose hashes agree modulo 4096 use the same counter at the same level (they share a budget),
    and the level is part of the key -/
theorem colliding_share (e₁ e₂ : Entry) :
    e₁.key = e₂.key ↔ e₁.level = e₂.level ∧ (fnv32a e₁.msg).toNat % 4096 = (fnv32a e₂.msg).toNat % 4096 := by
  simp [Entry.key, bucket, numBuckets, Prod.ext_iff]

/-- the counter values seen by the entries of one key, within any run over the whole table, are exactly the run
    of that key's cell over those entries' timestamps: other keys, disabled and out-of-range entries
    do not disturb it -/
theorem key_projection (cfg : Cfg) (en : Int → Bool) (k : Key) (es : List Entry) (cs : Counters) :
    (((runAll cfg en cs es).2.zip es).filter (fun p => sel en k p.2)).map (fun p => p.1.n) =
      (cellRun (cs k) cfg.tick ((es.filter (sel en k)).map (·.t))).map some :=
  (runAll_projects cfg en k es cs).1

/-! ## disabled and out-of-range levels -/

/-- an entry at a disabled level consumes no budget, calls no hook and is not forwarded -/
theorem disabled_no_budget (cfg : Cfg) (en : Int → Bool) (cs : Counters) (e : Entry) (h : en e.level = false) :
    check cfg en cs e = (cs, ⟨[], false, none⟩) := by
  simp [check, h]

/-- an enabled entry with a level outside [Debug, Fatal] passes unsampled: forwarded, no counter, no hook -/
theorem oob_unsampled (cfg : Cfg) (en : Int → Bool) (cs : Counters) (e : Entry)
    (h : en e.level = true) (ho : e.level < -1 ∨ 5 < e.level) :
    check cfg en cs e = (cs, ⟨[], true, none⟩) := by
  have : inRange e.level = false := by
    rcases ho with h1 | h1
    · have : ¬ (-1 ≤ e.level) := by omega
      simp [inRange, minLevel, this]
    · have : ¬ (e.level ≤ 5) := by omega
      simp [inRange, maxLevel, this]
  simp [check, h, this]

/-! ## With -/

/-- a With-derived sampler points to the same counters and hook, and a Check through it has exactly the effect
    on the shared counters, the decision and the hook call of a Check through its parent -/
theorem with_shares_counters (w : World) (s : Samp) (f : Nat) (en : Int → Bool) (e : Entry) :
    (s.with f).ref = s.ref ∧ (s.with f).hookId = s.hookId ∧ (s.with f).cfg = s.cfg ∧
    w.check (s.with f) en e = w.check s en e :=
  ⟨rfl, rfl, rfl, rfl⟩

/-- a separately constructed sampler has its own fresh counters, and Checks through one sampler never touch
    the counters of another -/
theorem new_sampler_independent (w : World) (cfg : Cfg) (h : Nat) (s : Samp) (en : Int → Bool) (e : Entry) :
    (w.newSampler cfg h).1.heap (w.newSampler cfg h).2.ref = Counters.fresh ∧
    (∀ r, r ≠ s.ref → (w.check s en e).1.heap r = w.heap r) := by
  constructor
  · simp [World.newSampler]
  · intro r hr; simp [World.check, hr]

/-! ## the hook -/

/-- every decided entry (enabled, in range) causes exactly one hook call, with the decision that is applied:
    forwarded iff sampled iff the predicate allows the position the counter returned -/
theorem hook_once_with_decision (cfg : Cfg) (en : Int → Bool) (cs : Counters) (e : Entry)
    (h : en e.level = true) (hr : -1 ≤ e.level ∧ e.level ≤ 5) :
    ∃ n d, (check cfg en cs e).2 = ⟨[d], decide (d = .sampled), some n⟩ ∧
      n = (inc (cs e.key) e.t cfg.tick).2 ∧ (d = .sampled ↔ allows cfg.N cfg.M n = true) := by
  have hc : counted en e = true := by
    simp [counted, h, inRange, minLevel, maxLevel, hr.1, hr.2]
  obtain ⟨_, h2, h3, h4⟩ := check_counted cfg en cs e hc
  refine ⟨(inc (cs e.key) e.t cfg.tick).2,
    (if allows cfg.N cfg.M (inc (cs e.key) e.t cfg.tick).2 then .sampled else .dropped), ?_, rfl, ?_⟩
  · cases ho : (check cfg en cs e).2 with
    | mk hk fw n =>
      simp only [ho] at h2 h3 h4
      subst h2 h3 h4
      by_cases ha : allows cfg.N cfg.M (inc (cs e.key) e.t cfg.tick).2 = true <;> simp [ha]
  · by_cases ha : allows cfg.N cfg.M (inc (cs e.key) e.t cfg.tick).2 = true <;> simp [ha]

/-- entries that are not decided (disabled or out of range) cause no hook call -/
theorem hook_not_called_undecided (cfg : Cfg) (en : Int → Bool) (cs : Counters) (e : Entry)
    (h : counted en e = false) : (check cfg en cs e).2.hook = [] :=
  (check_uncounted cfg en cs e h).2.2

/-! ## concurrent use inside an open window -/

/-- for EVERY interleaving of the atomic steps of `k` concurrent `IncCheckReset` calls whose timestamps lie
    inside the already open window, once all calls have returned the values returned are exactly
    `c+1 … c+k` (each once), the counter stands at `c+k`, and the window end is untouched -/
theorem open_window_exact (c : Cell) (ts : List Int) (tick : Int) (sched : List Nat)
    (hopen : ∀ t ∈ ts, t < c.resetAt)
    (hdone : Conc.allDone (Conc.run tick (Conc.initSt c ts) sched) = true) :
    (Conc.rets (Conc.run tick (Conc.initSt c ts) sched).ths).Perm (List.range' (c.n + 1) ts.length) ∧
    (Conc.run tick (Conc.initSt c ts) sched).n = c.n + ts.length ∧
    (Conc.run tick (Conc.initSt c ts) sched).resetAt = c.resetAt := by
  have hinv := Conc.run_inv tick c.resetAt c.n sched _ (Conc.init_inv c ts hopen)
  have hlen : (Conc.rets (Conc.run tick (Conc.initSt c ts) sched).ths).length = ts.length := by
    rw [Conc.rets_length_of_allDone _ hdone, Conc.run_length]; simp [Conc.initSt]
  refine ⟨?_, ?_, hinv.ra⟩
  · have := hinv.perm; rwa [hlen] at this
  · have := hinv.cnt; rwa [hlen] at this

/-- hence the number of admitted entries under any interleaving equals the sequential one
    (each call's decision, hook call and forwarding are functions of the value it got back:
    `hook_once_with_decision`) -/
theorem open_window_count_eq_sequential (c : Cell) (N M : Nat) (ts : List Int) (tick : Int) (sched : List Nat)
    (hopen : ∀ t ∈ ts, t < c.resetAt)
    (hdone : Conc.allDone (Conc.run tick (Conc.initSt c ts) sched) = true) :
    (Conc.rets (Conc.run tick (Conc.initSt c ts) sched).ths).countP (allows N M) =
      (cellRun c tick ts).countP (allows N M) := by
  rw [(open_window_exact c ts tick sched hopen hdone).1.countP_eq, (cellRun_open c tick ts hopen).1]

/-- non-vacuity: a complete interleaving of three calls (loads first, then the adds in another order) -/
example : Conc.allDone (Conc.run 10 (Conc.initSt ⟨100, 4⟩ [7, 7, 50]) [2, 0, 1, 1, 2, 0]) = true ∧
    Conc.rets (Conc.run 10 (Conc.initSt ⟨100, 4⟩ [7, 7, 50]) [2, 0, 1, 1, 2, 0]).ths = [7, 5, 6] := by decide

/-- the hypothesis matters: when calls at the window end race with the reset, a value can be handed out twice
    (the documented "slightly over- or under-sampled"); inside an open window it cannot -/
example : Conc.allDone (Conc.run 10 (Conc.initSt ⟨100, 4⟩ [100, 100, 105]) [0, 1, 0, 0, 2, 2, 1, 1, 1]) = true ∧
    Conc.rets (Conc.run 10 (Conc.initSt ⟨100, 4⟩ [100, 100, 105]) [0, 1, 0, 0, 2, 2, 1, 1, 1]).ths = [1, 2, 2] := by
  decide

end ZapVerif.C11

/-! ## the model's counter and hash ARE the source (Go→GoMini translation, docs/TRANSLATOR.md)

`Gen/TransSampler.lean` holds the bodies of `fnv32a`, `counter.IncCheckReset` and `sampler.Check` as read from
zapcore/sampler.go on this run, as GoMini terms.  The theorems below run them in the GoMini interpreter on ALL inputs
and get exactly `Sampler.fnv32a`, `Sampler.inc` and `Sampler.check`.  The atomics carry their sequential meaning
(the concurrent claim is `open_window_exact`).  Hypotheses: lengths fit `int`; the counter does not wrap
(`n + 1 < 2^64`); `NoOverflow t tick` — the same hypothesis the window theorems carry.  `en` is the wrapped
core's `Enabled`. -/
namespace ZapVerif.C11
set_option linter.unusedSimpArgs false
open ZapVerif ZapVerif.Sampler ZapVerif.GoMini ZapVerif.TransSampler ZapVerif.Gen.TransSampler

/-- the loop of `fnv32a`: one xor-then-multiply round per byte, on uint32 -/
theorem fnv32a_loop_matches_source (en : Int → Bool) (s : Bytes) (hs : s.length < 2^63) (h0 : UInt32) (fuel : Nat) :
    execS (X en) (exec (X en) (fuel + s.length + 0)) fnv32a_loop0
        ⟨[("p0", .bytes s), ("l0", .int h0.toNat), ("l1", .int (0 : Nat))], []⟩ =
      .normal ⟨[("p0", .bytes s), ("l0", .int (s.foldl (fun h b => (h ^^^ b.toUInt32) * fnvPrime) h0).toNat),
                ("l1", .int s.length)], []⟩ := by
  unfold fnv32a_loop0
  refine (loop_fold (α := Nat × UInt32) (X en) _ _ _ 0
    (fun a => ⟨[("p0", .bytes s), ("l0", .int a.2.toNat), ("l1", .int a.1)], []⟩) (fun a => a.1 ≤ s.length)
    (fun a => decide (a.1 < s.length))
    (fun a => (a.1 + 1, (a.2 ^^^ (s.getD a.1 0).toUInt32) * fnvPrime))
    (fun a => (s.length, (s.drop a.1).foldl (fun h b => (h ^^^ b.toUInt32) * fnvPrime) a.2)) (fun a => s.length - a.1)
    ?_ ?_ ?_ ?_ ?_ ?_ s.length (0, h0) fuel (Nat.zero_le _) (by simp)).trans (by simp)
  · intro a _; simp
  · intro a fuel _ hc
    have hc' : a.1 < s.length := by simpa using hc
    have hw : wrap .int ((a.1 : Int) + 1) = ((a.1 + 1 : Nat) : Int) := by
      rw [wrap_int_id] <;> simp at hs ⊢ <;> omega
    have hg : s[a.1]?.getD 0 = s[a.1] := by simp [hc']
    simp [hw, indexVal_bytes s a.1 hc', fnv_round, hg]
  · intro a ha hc
    have : a.1 < s.length := by simpa using hc
    show a.1 + 1 ≤ s.length
    omega
  · intro a ha hc
    have : a.1 < s.length := by simpa using hc
    show s.length - (a.1 + 1) < s.length - a.1
    omega
  · intro a ha hc
    have h1 : ¬ a.1 < s.length := by simpa using hc
    have h2 : a.1 ≤ s.length := ha
    have : a.1 = s.length := by omega
    obtain ⟨i, h⟩ := a
    simp_all
  · intro a ha hc
    obtain ⟨i, h⟩ := a
    have h1 : i < s.length := by simpa using hc
    simp only [Prod.mk.injEq, true_and]
    have hg : s.getD i 0 = s[i] := by simp [h1]
    rw [List.drop_eq_getElem_cons h1, List.foldl_cons, hg]

/-- `fnv32a(s)` ≡ `Sampler.fnv32a`: FNV-1a with wrapping uint32 multiplication, for every string -/
theorem fnv32a_matches_source (en : Int → Bool) (s : Bytes) (hs : s.length < 2^63) (fuel : Nat) :
    run (X en) (fuel + s.length + 1) "fnv32a" [.bytes s] [] = .done [.int (Sampler.fnv32a s).toNat] [] := by
  refine run_of_fin (X en) _ _ Gen.TransSampler.fnv32a [.bytes s] _ _ _ rfl rfl ?_
  show (exec (X en) (fuel + s.length + 1) fnv32a_body ⟨[("p0", .bytes s)], []⟩).fin = _
  rw [exec_succ]
  have := fnv32a_loop_matches_source en s hs fnvOffset fuel
  simp [fnvOffset] at this
  simp [fnv32a_body, this, Sampler.fnv32a, fnvOffset]

/-- body of `counter.IncCheckReset` inside any larger field environment (`rest` is untouched) -/
theorem IncCheckReset_exec_matches_source (en : Int → Bool) (c : Cell) (t tick : Int) (rest : Env) (fuel : Nat)
    (hn : (c.n : Int) + 1 < 18446744073709551616) (hov : NoOverflow t tick) :
    (exec (X en) (fuel + 1) IncCheckReset_body ⟨[("p0", .int t), ("p1", .int tick)], cellFld c.resetAt c.n rest⟩).fin =
      some ([.int (inc c t tick).2], cellFld (inc c t tick).1.resetAt (inc c t tick).1.n rest) := by
  rw [exec_succ]
  have hw : wrap .u64 ((c.n : Int) + 1) = ((c.n + 1 : Nat) : Int) := by
    rw [wrap_u64_id] <;> omega
  have hw2 : wrap .i64 (t + tick) = t + tick := by
    unfold NoOverflow at hov
    rw [wrap_i64_id] <;> omega
  by_cases h : c.resetAt > t
  · have h' : t < c.resetAt := h
    simp [IncCheckReset_body, inc, h, h', hw]
  · have h' : ¬ t < c.resetAt := h
    simp [IncCheckReset_body, inc, h, h', hw2]

/-- `counter.IncCheckReset(t, tick)` ≡ `Sampler.inc` (sequential meaning of the atomics: `Load`, `Add(1)`,
    `Store(1)`, `CompareAndSwap`, which cannot fail without a concurrent writer): the returned count and the new
    `resetAt`/`counter`, for every cell and timestamp; `t + tick` inside int64 is `NoOverflow` -/
theorem IncCheckReset_matches_source (en : Int → Bool) (c : Cell) (t tick : Int) (fuel : Nat)
    (hn : (c.n : Int) + 1 < 18446744073709551616) (hov : NoOverflow t tick) :
    run (X en) (fuel + 1) "IncCheckReset" [.int t, .int tick] (cellFld c.resetAt c.n []) =
      .done [.int (inc c t tick).2] (cellFld (inc c t tick).1.resetAt (inc c t tick).1.n []) :=
  run_of_fin (X en) _ _ Gen.TransSampler.IncCheckReset [.int t, .int tick] _ _ _ rfl rfl
    (IncCheckReset_exec_matches_source en c t tick [] fuel hn hov)

/-- `sampler.Check(ent, ce)` ≡ `Sampler.check`, on the cell `counts.get` selected: a disabled level returns `ce`
    untouched; an in-range level counts (`IncCheckReset`, translated) and is dropped — hook called with `LogDropped`,
    `ce` returned, nothing forwarded — iff `n > first && (thereafter == 0 || (n-first)%thereafter != 0)`, otherwise
    the hook is called with `LogSampled` and the entry is forwarded to the wrapped core; an out-of-range level is
    forwarded without counting and without a hook call.  The uint64 subtraction cannot wrap and `%` cannot divide
    by zero (short-circuit `||`). -/
theorem Check_matches_source (en : Int → Bool) (cfg : Cfg) (cs : Counters) (e : Entry) (ce : Val)
    (hooks fwd : List Val) (fuel : Nat)
    (hN : (cfg.N : Int) < 18446744073709551616) (hM : (cfg.M : Int) < 18446744073709551616)
    (hn : ((cs e.key).n : Int) + 1 < 18446744073709551616) (hov : NoOverflow e.t cfg.tick) :
    run (X en) (fuel + 2) "Check" [entV e, ce]
        (cellFld (cs e.key).resetAt (cs e.key).n (sampRest cfg.N cfg.M cfg.tick hooks fwd)) =
      .done [if (check cfg en cs e).2.forwarded then .list [ce] else ce]
        (cellFld ((check cfg en cs e).1 e.key).resetAt ((check cfg en cs e).1 e.key).n
          (sampRest cfg.N cfg.M cfg.tick (hooks ++ (check cfg en cs e).2.hook.map fun d => .int (decCode d))
            (fwd ++ if (check cfg en cs e).2.forwarded then [entV e] else []))) := by
  obtain ⟨N, M, tick⟩ := cfg
  simp only at hN hM hov ⊢
  refine run_of_fin (X en) _ _ Gen.TransSampler.Check [entV e, ce] _ _ _ rfl rfl ?_
  show (exec (X en) (fuel + 2) Check_body ⟨[("p0", entV e), ("p1", ce)], _⟩).fin = _
  rw [exec_succ]
  have hinc : ∀ σ : State, retK σ [.loc "l1"] "IncCheckReset"
      (exec (X en) (fuel + 1) IncCheckReset_body
        ⟨[("p0", .int e.t), ("p1", .int tick)],
          cellFld (cs e.key).resetAt (cs e.key).n (sampRest N M tick hooks fwd)⟩) = _ :=
    fun σ => retK_of_fin1 σ _ _ _ _ _ (IncCheckReset_exec_matches_source en (cs e.key) e.t tick _ fuel hn hov)
  cases hen : en e.level
  · have hchk : check ⟨N, M, tick⟩ en cs e = (cs, ⟨[], false, none⟩) := by simp [check, hen]
    rw [hchk]
    simp [Check_body, entV, indexVal, hen]
  · by_cases hlo : -1 ≤ e.level
    · by_cases hhi : e.level ≤ 5
      · have hr : inRange e.level = true := by simp [inRange, minLevel, maxLevel, hlo, hhi]
        have hle : (inc (cs e.key) e.t tick).2 ≤ (cs e.key).n + 1 := by
          unfold inc; split <;> simp
        have hset : ∀ c : Cell, (cs.set e.key c) e.key = c := by intro c; simp [Counters.set]
        have hchk : check ⟨N, M, tick⟩ en cs e =
            if allows N M (inc (cs e.key) e.t tick).2
            then (cs.set e.key (inc (cs e.key) e.t tick).1, ⟨[.sampled], true, some (inc (cs e.key) e.t tick).2⟩)
            else (cs.set e.key (inc (cs e.key) e.t tick).1, ⟨[.dropped], false, some (inc (cs e.key) e.t tick).2⟩) := by
          simp [check, hen, hr]
        rw [hchk]
        generalize inc (cs e.key) e.t tick = r at hinc hle ⊢
        by_cases h1 : N < r.2
        · by_cases h2 : M = 0
          · subst h2
            have hal : allows N 0 r.2 = false := by simp [allows, h1]
            rw [show ((0 : Nat) : Int) = 0 from rfl] at hinc
            simp [Check_body, entV, indexVal, hen, hlo, hhi, hinc, h1, hal, hset, decCode]
          · have hsub : wrap .u64 ((r.2 : Int) - N) = ((r.2 - N : Nat) : Int) := by
              rw [wrap_u64_id] <;> omega
            have hmod : wrap .u64 ((((r.2 - N : Nat) : Int)).tmod M) = (((r.2 - N) % M : Nat) : Int) := by
              rw [← Int.ofNat_tmod, wrap_u64_id]
              · exact Int.natCast_nonneg _
              · have := Nat.mod_lt (r.2 - N) (Nat.pos_of_ne_zero h2); omega
            have h3' : (((r.2 - N : Nat) : Int) % (M : Int) = 0) ↔ (r.2 - N) % M = 0 := by
              rw [← Int.natCast_emod]; exact Int.natCast_eq_zero
            by_cases h3 : (r.2 - N) % M = 0
            · have hal : allows N M r.2 = true := by simp [allows, h1, h2, h3]
              simp [Check_body, entV, indexVal, hen, hlo, hhi, hinc, h1, h2, h3, h3', hal, hset, decCode, hsub, hmod]
            · have hal : allows N M r.2 = false := by simp [allows, h1, h2, h3]
              simp [Check_body, entV, indexVal, hen, hlo, hhi, hinc, h1, h2, h3, h3', hal, hset, decCode, hsub, hmod]
        · have hal : allows N M r.2 = true := by simp [allows, h1]
          simp [Check_body, entV, indexVal, hen, hlo, hhi, hinc, h1, hal, hset, decCode]
      · have hr : inRange e.level = false := by simp [inRange, minLevel, maxLevel, hlo, hhi]
        have hchk : check ⟨N, M, tick⟩ en cs e = (cs, ⟨[], true, none⟩) := by simp [check, hen, hr]
        rw [hchk]
        simp [Check_body, entV, indexVal, hen, hlo, hhi, hinc]
    · have hr : inRange e.level = false := by simp [inRange, minLevel, maxLevel, hlo]
      have hchk : check ⟨N, M, tick⟩ en cs e = (cs, ⟨[], true, none⟩) := by simp [check, hen, hr]
      rw [hchk]
      simp [Check_body, entV, indexVal, hen, hlo]

end ZapVerif.C11
