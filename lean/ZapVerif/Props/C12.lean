import ZapVerif.Proofs.Bws
import ZapVerif.Proofs.BwsConc
import ZapVerif.Model.BwsSkel
import ZapVerif.Gen.BwsFacts
import ZapVerif.Proofs.TransLocked
/-! # C12 — BufferedWriteSyncer delivers every byte once, in order, in whole writes

Part 1 (this section): one `BufferedWriteSyncer{WS: sink, Size: size}` driven by an arbitrary history of
`Write` / `Sync` / tick / `Stop` (`Bws.Op`), over a sink whose every `Write` and `Sync` outcome is scripted
(`mk size wo so`; `wo = []` is the reliable sink).  `bufio.Writer` is modelled from Go's source including the
sticky error, short writes and the large-write path.  All sizes, write lengths and histories are unbounded.

Part 2: the thread machine (writers, syncers, stoppers, the flush goroutine, the mutex, the `stop`/`done`/`flushed`
channels, ticks) — see `ZapVerif.C12.Conc` below. -/
namespace ZapVerif.C12
section Seq
open ZapVerif ZapVerif.Bws

/-! ## every byte once, in order (any sink, failing or not) -/

/-- **stream invariant**: what the sink took so far, followed by what is buffered, is exactly the concatenation of
    the accepted parts of all writes, in order — nothing lost, duplicated or reordered, whatever the sink does -/
theorem stream_inv (size : Int) (wo : List WOut) (so : List Bool) (ops : List Op) :
    taken (run (mk size wo so) ops).sink ++ (run (mk size wo so) ops).buf = accepted (mk size wo so) ops := by
  have := content_run ops (mk size wo so) (wf_mk _ _ _)
  simpa [content, mk] using this

/-- on a reliable sink every write is accepted in full, so the stream is the concatenation of all writes -/
theorem stream_inv_reliable (size : Int) (so : List Bool) (ops : List Op) :
    taken (run (mk size [] so) ops).sink ++ (run (mk size [] so) ops).buf = (writesOf ops).flatten := by
  rw [stream_inv, accepted_reliable ops [] _ (rinv_mk size so)]

/-- **bounded buffering**: never more than the configured size is held back -/
theorem bounded (size : Int) (wo : List WOut) (so : List Bool) (ops : List Op) :
    (run (mk size wo so) ops).buf.length ≤ effSize size ∧
    (accepted (mk size wo so) ops).length ≤ (taken (run (mk size wo so) ops).sink).length + effSize size := by
  have hb := (wf_run ops _ (wf_mk size wo so)).bound
  have hs : ∀ (ops : List Op) (s : St), Wf s → (run s ops).size = s.size := by
    intro ops
    induction ops with
    | nil => intro s _; rfl
    | cons o os ih =>
      intro s h
      simp only [run]; rw [ih _ (wf_step s o h)]
      cases o with
      | write bs => exact (write_spec s bs h.bound).size
      | sync => exact (sync_spec s).size
      | tick => simp only [step, tick]; split; exact (sync_spec s).size; rfl
      | stop => simp only [step, stop]; split; rfl; exact (sync_spec _).size
  rw [hs ops _ (wf_mk size wo so)] at hb
  refine ⟨hb, ?_⟩
  rw [← stream_inv, List.length_append]
  exact Nat.add_le_add_left hb _

/-! ## whole writes (reliable sink) -/

/-- **whole writes**: the caller writes are cut into contiguous groups; every sink write is the concatenation of one
    group (so no caller write — no log line — is ever split across two sink writes) and the buffer holds exactly the
    writes after the last group -/
theorem whole_writes (size : Int) (so : List Bool) (ops : List Op) :
    ∃ (groups : List (List Bytes)) (pending : List Bytes),
      writesOf ops = groups.flatten ++ pending ∧
      sinkWrites (run (mk size [] so) ops).sink = groups.map List.flatten ∧
      (run (mk size [] so) ops).buf = pending.flatten := by
  have := (rinv_run ops [] _ (rinv_mk size so)).aligned
  simpa [Aligned] using this

/-- and the sink took each of those writes completely (it is reliable) -/
theorem sink_writes_full (size : Int) (so : List Bool) (ops : List Op) :
    taken (run (mk size [] so) ops).sink = (sinkWrites (run (mk size [] so) ops).sink).flatten :=
  full_taken (rinv_run ops [] _ (rinv_mk size so)).full

/-! ## Sync, tick, Stop flush and sync the sink -/

/-- the three flushing operations at once: after `Sync`, after a processed tick, after the `Stop` that shuts the
    syncer down — provided the flush left no (sticky) write error — everything accepted so far is in the sink, and
    if the syncer was ever written to the last thing the sink saw is a `Sync` -/
theorem flush_op_flushes (size : Int) (wo : List WOut) (so : List Bool) (ops : List Op) (o : Op)
    (hf : FlushOp (run (mk size wo so) ops) o) (he : (run (mk size wo so) (ops ++ [o])).err = none) :
    taken (run (mk size wo so) (ops ++ [o])).sink = accepted (mk size wo so) (ops ++ [o]) ∧
    (run (mk size wo so) (ops ++ [o])).buf = [] ∧
    ((run (mk size wo so) ops).init = true → (run (mk size wo so) (ops ++ [o])).sink.getLast? = some .sync) := by
  have hw := wf_run ops _ (wf_mk size wo so)
  have hr : run (mk size wo so) (ops ++ [o]) = (step (run (mk size wo so) ops) o).1 := by
    rw [run_append]; rfl
  rw [hr] at he
  have hb := flushop_empty _ o hw hf he
  have hst := stream_inv size wo so (ops ++ [o])
  rw [hr] at hst ⊢
  rw [hb, List.append_nil] at hst
  exact ⟨hst, hb, fun hi => flushop_synced _ o hf hi⟩

/-- **Sync flushes**: when `Sync` reports no flush error, every byte accepted before it is in the sink and the
    sink's `Sync` was the last call made -/
theorem sync_flushes (size : Int) (wo : List WOut) (so : List Bool) (ops : List Op)
    (he : (sync (run (mk size wo so) ops)).2.1 = none) (hi : (run (mk size wo so) ops).init = true) :
    taken (sync (run (mk size wo so) ops)).1.sink = accepted (mk size wo so) ops ∧
    (sync (run (mk size wo so) ops)).1.sink.getLast? = some .sync := by
  have S := sync_spec (run (mk size wo so) ops)
  have hr : run (mk size wo so) (ops ++ [.sync]) = (sync (run (mk size wo so) ops)).1 := by rw [run_append]; rfl
  have he' : (run (mk size wo so) (ops ++ [.sync])).err = none := by rw [hr, ← S.err_eq hi]; exact he
  obtain ⟨h1, _, h3⟩ := flush_op_flushes size wo so ops .sync (Or.inl rfl) he'
  rw [hr] at h1 h3
  rw [accepted_append, flushop_accepts_nothing _ _ (Or.inl rfl), List.append_nil] at h1
  exact ⟨h1, h3 hi⟩

/-- `Sync` before the first `Write` (nothing was ever accepted): the sink is still synced -/
theorem sync_uninitialised (s : St) (hi : s.init = false) : (sync s).1.sink = s.sink ++ [.sync] := by
  simp [sync, wsSync, hi]

/-- **a processed tick flushes** (the flush goroutine exists: initialised and not stopped) -/
theorem tick_flushes (size : Int) (wo : List WOut) (so : List Bool) (ops : List Op)
    (hi : (run (mk size wo so) ops).init = true) (hs : (run (mk size wo so) ops).stopped = false)
    (he : (tick (run (mk size wo so) ops)).err = none) :
    taken (tick (run (mk size wo so) ops)).sink = accepted (mk size wo so) ops ∧
    (tick (run (mk size wo so) ops)).sink.getLast? = some .sync := by
  have hr : run (mk size wo so) (ops ++ [.tick]) = tick (run (mk size wo so) ops) := by rw [run_append]; rfl
  have hf : FlushOp (run (mk size wo so) ops) .tick := Or.inr ⟨Or.inl rfl, hs⟩
  obtain ⟨h1, _, h3⟩ := flush_op_flushes size wo so ops .tick hf (by rw [hr]; exact he)
  rw [hr] at h1 h3
  rw [accepted_append, flushop_accepts_nothing _ _ hf, List.append_nil] at h1
  exact ⟨h1, h3 hi⟩

/-- **Stop flushes**: the `Stop` that shuts an initialised syncer down returns after everything accepted before it
    is in the sink and the sink was synced; from then on no tick is processed (the flush goroutine is gone) -/
theorem stop_flushes (size : Int) (wo : List WOut) (so : List Bool) (ops : List Op)
    (hi : (run (mk size wo so) ops).init = true) (hs : (run (mk size wo so) ops).stopped = false)
    (he : (stop (run (mk size wo so) ops)).2.1 = none) :
    taken (stop (run (mk size wo so) ops)).1.sink = accepted (mk size wo so) ops ∧
    (stop (run (mk size wo so) ops)).1.sink.getLast? = some .sync ∧
    tick (stop (run (mk size wo so) ops)).1 = (stop (run (mk size wo so) ops)).1 := by
  have hr : run (mk size wo so) (ops ++ [.stop]) = (stop (run (mk size wo so) ops)).1 := by rw [run_append]; rfl
  have hf : FlushOp (run (mk size wo so) ops) .stop := Or.inr ⟨Or.inr rfl, hs⟩
  have hst : stop (run (mk size wo so) ops) = sync { run (mk size wo so) ops with stopped := true } := by
    simp [stop, hi, hs]
  have S := sync_spec { run (mk size wo so) ops with stopped := true }
  have he' : (run (mk size wo so) (ops ++ [.stop])).err = none := by
    rw [hr, hst, ← S.err_eq hi, ← hst]; exact he
  obtain ⟨h1, _, h3⟩ := flush_op_flushes size wo so ops .stop hf he'
  rw [hr] at h1 h3
  rw [accepted_append, flushop_accepts_nothing _ _ hf, List.append_nil] at h1
  refine ⟨h1, h3 hi, ?_⟩
  have : (stop (run (mk size wo so) ops)).1.stopped = true := by rw [hst]; exact S.stopped
  simp [tick, this]

/-- on a reliable sink the flush never fails: the three theorems above apply unconditionally -/
theorem reliable_never_fails (size : Int) (so : List Bool) (ops : List Op) :
    (run (mk size [] so) ops).err = none ∧ (sync (run (mk size [] so) ops)).2.1 = none ∧
    (stop (run (mk size [] so) ops)).2.1 = none ∧ (tick (run (mk size [] so) ops)).err = none := by
  have R := rinv_run ops [] _ (rinv_mk size so)
  refine ⟨R.rel.2, (sync_reliable _ R.rel fun hi => (R.wf.fresh hi).1).1, ?_, (rinv_tick R).rel.2⟩
  unfold stop; split
  · rfl
  · rename_i hc
    have hi : (run (mk size [] so) ops).init = true := by
      cases h : (run (mk size [] so) ops).init <;> simp [h] at hc ⊢
    exact (sync_reliable { run (mk size [] so) ops with stopped := true } R.rel (fun h => by simp [hi] at h)).1

/-- **Stop is idempotent**: a second `Stop` does nothing and returns nil (also when the first one failed to flush —
    zap's own test "stop twice") -/
theorem stop_idempotent (s : St) : stop (stop s).1 = ((stop s).1, none, false) := stop_twice s

/-! ## crash prefix -/

/-- **crash, any sink**: whatever prefix of its calls the sink has completed when the process dies, its content is a
    prefix of the accepted stream (no byte lost in the middle, duplicated or reordered) -/
theorem crash_stream_prefix (size : Int) (wo : List WOut) (so : List Bool) (ops : List Op) (pre : List Ev)
    (hp : pre <+: (run (mk size wo so) ops).sink) : taken pre <+: accepted (mk size wo so) ops := by
  have h1 := taken_prefix hp
  have h2 : taken (run (mk size wo so) ops).sink <+: accepted (mk size wo so) ops :=
    ⟨_, stream_inv size wo so ops⟩
  exact h1.trans h2

/-- **crash prefix** (reliable sink = a file whose `write(2)` calls are atomic): at every point of every history the
    sink content is (1) cut at a boundary between caller writes and (2) contains everything accepted before any
    flushing operation (`Sync`, processed tick, the shutting-down `Stop`) that had completed by then -/
theorem crash_prefix (size : Int) (so : List Bool) (ops : List Op) (pre : List Ev)
    (hp : pre <+: (run (mk size [] so) ops).sink) :
    (∃ k, taken pre = ((writesOf ops).take k).flatten) ∧
    (∀ ops1 o ops2, ops = ops1 ++ o :: ops2 → FlushOp (run (mk size [] so) ops1) o →
        (run (mk size [] so) (ops1 ++ [o])).sink <+: pre → (writesOf ops1).flatten <+: taken pre) := by
  have R := rinv_run ops [] _ (rinv_mk size so)
  refine ⟨?_, ?_⟩
  · have := aligned_prefix R.aligned R.full pre hp
    simpa using this
  · intro ops1 o ops2 _ hf hpre
    have R1 := rinv_run (ops1 ++ [o]) [] _ (rinv_mk size so)
    have hst := stream_inv_reliable size so (ops1 ++ [o])
    have hr : run (mk size [] so) (ops1 ++ [o]) = (step (run (mk size [] so) ops1) o).1 := by
      rw [run_append]; rfl
    have hb : (run (mk size [] so) (ops1 ++ [o])).buf = [] := by
      rw [hr]
      apply flushop_empty _ o (wf_run ops1 _ (wf_mk _ _ _)) hf
      rw [← hr]; exact R1.rel.2
    have hw : writesOf (ops1 ++ [o]) = writesOf ops1 := by
      rw [writesOf_append]
      rcases hf with rfl | ⟨rfl | rfl, _⟩ <;> simp [writesOf]
    rw [hb, List.append_nil, hw] at hst
    rw [← hst]
    exact taken_prefix hpre

/-! ## failing sinks -/

/-- **short count ⇒ error**: whenever `Write` reports fewer bytes than it was given it also reports an error
    (`io.Writer` contract; needs the loop of `bufio.Writer.Write` to have run to completion — `need_le_fuelFor`) -/
theorem short_count_has_error (size : Int) (wo : List WOut) (so : List Bool) (ops : List Op) (bs : Bytes)
    (h : (write (run (mk size wo so) ops) bs).2.1 < bs.length) :
    (write (run (mk size wo so) ops) bs).2.2 ≠ none :=
  (write_spec _ bs (wf_run ops _ (wf_mk size wo so)).bound).short_err h

/-- `Write` never reports more than it was given, and the error it returns is the one that sticks -/
theorem write_count_le (size : Int) (wo : List WOut) (so : List Bool) (ops : List Op) (bs : Bytes) :
    (write (run (mk size wo so) ops) bs).2.1 ≤ bs.length ∧
    (write (run (mk size wo so) ops) bs).2.2 = (write (run (mk size wo so) ops) bs).1.err :=
  ⟨(write_spec _ bs (wf_run ops _ (wf_mk size wo so)).bound).n_le,
   (write_spec _ bs (wf_run ops _ (wf_mk size wo so)).bound).err_eq⟩

/-- **the error is sticky** (bufio): after a failed or short sink write every later `Write` accepts nothing, hands the
    sink nothing and returns that error; `Sync` returns it too but still syncs the sink -/
theorem error_is_sticky (s : St) (e : EK) (he : s.err = some e) (bs : Bytes) :
    write s bs = ({ s with init := true }, 0, some e) ∧
    (s.init = true → (sync s).2.1 = some e ∧ (sync s).1.sink = s.sink ++ [.sync] ∧ (sync s).1.buf = s.buf) := by
  refine ⟨write_sticky s bs e he, fun hi => ?_⟩
  have hf : flush s = (s, some e) := (flush_spec s).sticky e he
  simp [sync, wsSync, hi, hf]

/-- a failed flush loses nothing: the bytes the sink did not take stay buffered (the stream invariant holds for
    failing sinks) and the flush error reaches the caller of `Sync` -/
theorem failed_flush_reported (s : St) (hi : s.init = true) (h : (sync s).1.buf ≠ []) : (sync s).2.1 ≠ none := by
  intro hn
  exact h ((sync_spec s).flushed (fun h' => by rw [hi] at h'; cases h') hn)

/-! ## non-vacuity: concrete histories -/

/-- size 4: "abc" is buffered, "de" does not fit ⇒ "abc" is flushed first and "de" buffered; Sync flushes it -/
example : (run (mk 4 [] []) [.write [97, 98, 99], .write [100, 101], .sync]).sink =
    [.write [97, 98, 99] 3, .write [100, 101] 2, .sync] := by decide

/-- a write larger than the buffer goes to the sink in one piece, after the buffered bytes -/
example : (run (mk 2 [] []) [.write [1], .write [2, 3, 4]]).sink = [.write [1] 1, .write [2, 3, 4] 3] := by decide

/-- exactly the free space: buffered, nothing reaches the sink; the tick flushes both writes as one sink write -/
example : (run (mk 3 [] []) [.write [1], .write [2, 3], .tick]).sink = [.write [1, 2, 3] 3, .sync] := by decide

/-- a short sink write (1 of 2 bytes, nil error) surfaces as `io.ErrShortWrite` from Sync, sticks, and the
    untaken byte stays buffered -/
example : (runRets (mk 4 [⟨1, false⟩] []) [.write [1, 2], .sync, .write [3]]) =
    [.wrote 2 none, .errs [.short], .wrote 0 (some .short)] ∧
    (run (mk 4 [⟨1, false⟩] []) [.write [1, 2], .sync, .write [3]]).buf = [2] := by decide

/-- F21 (not a violation of the statement, recorded here): bytes written after the shutdown stay buffered through a
    repeated `Stop` — which is a no-op — until the next `Sync` -/
example : (run (mk 4 [] []) [.write [1], .stop, .write [2], .stop]).buf = [2] ∧
    (run (mk 4 [] []) [.write [1], .stop, .write [2], .stop, .sync]).buf = [] := by decide

/-- the hypotheses of `sync_flushes` / `tick_flushes` / `stop_flushes` are satisfiable -/
example : (run (mk 4 [] []) [.write [1]]).init = true ∧ (run (mk 4 [] []) [.write [1]]).stopped = false ∧
    (stop (run (mk 4 [] []) [.write [1]])).2.1 = none := by decide

end Seq

/-! # Part 2 — the thread machine

Any number of goroutines calling `Write`, `Sync` and `Stop` in any order, the flush goroutine, ticks at any moment,
every interleaving (`BwsConc.Reach`).  `cfg.lockedWait = false ∧ cfg.waitFlushed = true` is the code as repaired
(issue 1428 upstream, F11 here); the two witnesses at the end show what each switch is there for. -/
namespace Conc
open ZapVerif.BwsConc

/-- **mutual exclusion**: at most one goroutine is inside a critical section of `s.mu` — so every concurrent run is,
    critical section by critical section, a sequential history of Part 1 -/
theorem mutex_excl (cfg : Cfg) (hc : cfg.lockedWait = false) (s : St) (h : Reach cfg s) :
    (∀ i j, inCS (s.cl i) = true → inCS (s.cl j) = true → i = j) ∧
    (s.loop = .inS → ∀ i, inCS (s.cl i) = false) := by
  have I := inv_reach cfg hc s h
  constructor
  · intro i j hi hj
    have a := (I.mu_cl i).2 hi
    have b := (I.mu_cl j).2 hj
    rw [a] at b; injection b
  · intro hl i
    cases hi : inCS (s.cl i) with
    | false => rfl
    | true =>
      have a := (I.mu_cl i).2 hi
      have b := I.mu_loop.2 hl
      rw [a] at b; cases b

/-- **no deadlock**: whenever a call is in flight or the flush goroutine is busy, some goroutine can move without
    anything arriving from outside (no new call, no tick) -/
theorem no_deadlock (cfg : Cfg) (hc : cfg.lockedWait = false) (s : St) (h : Reach cfg s) (hq : ¬ Quiescent s) :
    ∃ a s', a.internal = true ∧ step cfg s a = some s' := by
  obtain ⟨a, ha, hs⟩ := progress cfg hc s (inv_reach cfg hc s h) hq
  cases hst : step cfg s a with
  | none => rw [hst] at hs; cases hs
  | some t => exact ⟨a, t, ha, hst⟩

/-- … and every such step brings the system strictly closer to rest, so **every call returns**: finitely many
    internal steps lead from any reachable state to one where all clients are idle and the flush goroutine sits in
    its `select` (or has ended) -/
theorem calls_complete (cfg : Cfg) (hc : cfg.lockedWait = false) (s : St) (h : Reach cfg s) :
    ∃ acts s', (∀ a ∈ acts, a.internal = true) ∧ runActs cfg s acts = some s' ∧ Quiescent s' :=
  quiesces cfg hc _ s h (Nat.le_refl _)

/-- **every Stop waits for the shutdown to complete** (the repair of F11) and **Stop ends the loop**: at the moment
    any `Stop` call returns on a stopped syncer (`cstep` into `retT`), the flush goroutine has returned and a flush has
    completed that covers every write accepted before the shutdown was signalled -/
theorem stop_returns_after_shutdown (cfg : Cfg) (hc : cfg.lockedWait = false) (hw : cfg.waitFlushed = true) (s s' : St)
    (h : Reach cfg s) (i : Nat) (hs : cstep cfg s i = some s') (hret : s'.cl i = .retT) (hst : s'.stopped = true) :
    s'.loop = .finished ∧ s'.accAtStop ≤ s'.flushed := by
  have I := inv_reach cfg hc s h
  have I' := inv_reach cfg hc s' (reach_step cfg s s' (.client i) h hs)
  have hk := ret_flushedClosed cfg hw s s' i I hs hret hst
  obtain ⟨_, h2, h3⟩ := flushedClosed_done cfg s' I' hk
  exact ⟨h3, h2⟩

/-- the two halves under the names of the plan -/
theorem stop_ends_loop (cfg : Cfg) (hc : cfg.lockedWait = false) (hw : cfg.waitFlushed = true) (s s' : St)
    (h : Reach cfg s) (i : Nat) (hs : cstep cfg s i = some s') (hret : s'.cl i = .retT) (hst : s'.stopped = true) :
    s'.loop = .finished := (stop_returns_after_shutdown cfg hc hw s s' h i hs hret hst).1

theorem stop_flushes_conc (cfg : Cfg) (hc : cfg.lockedWait = false) (hw : cfg.waitFlushed = true) (s s' : St)
    (h : Reach cfg s) (i : Nat) (hs : cstep cfg s i = some s') (hret : s'.cl i = .retT) (hst : s'.stopped = true) :
    s'.accAtStop ≤ s'.flushed := (stop_returns_after_shutdown cfg hc hw s s' h i hs hret hst).2

/-- … and it never comes back: no goroutine is left behind after `Stop` -/
theorem loop_stays_finished (cfg : Cfg) (hc : cfg.lockedWait = false) (s s' : St) (a : Act) (h : Reach cfg s)
    (hl : s.loop = .finished) (hs : step cfg s a = some s') : s'.loop = .finished := by
  have I := inv_reach cfg hc s h
  have hin : s.init = true := by
    cases hi : s.init with
    | true => rfl
    | false => have := I.loop_init.2 hi; rw [hl] at this; cases this
  have hstart : ∀ i pc, start cfg s i pc = some s' → s'.loop = .finished := by
    intro i pc h
    unfold start at h
    split at h
    · injection h with h; subst h; exact hl
    · cases h
  cases a with
  | write i => exact hstart i _ hs
  | sync i => exact hstart i _ hs
  | stop i => exact hstart i _ hs
  | tick => simp [step, hl] at hs
  | loop => simp [step, lstep, hl] at hs
  | client i =>
    simp only [step] at hs
    unfold cstep at hs
    split at hs
    all_goals (try split at hs)
    all_goals (try split at hs)
    all_goals (try split at hs)
    all_goals (first | (cases hs; done) | skip)
    all_goals (injection hs with hs; subst hs; simp_all)

/-- **Stop may be called repeatedly, from anywhere**: neither `close(s.stop)` nor `close(s.flushed)` ever runs twice
    (a second close would panic), `stop` is closed exactly when `stopped` is set, a stopped syncer was initialised, and
    at most one `Stop` call is ever the one that shuts down -/
theorem stop_idempotent_conc (cfg : Cfg) (hc : cfg.lockedWait = false) (s : St) (h : Reach cfg s) :
    s.panicked = false ∧ s.stopClosed = s.stopped ∧ (s.stopped = true → s.init = true) ∧
    (∀ i j, shutting (s.cl i) = true → shutting (s.cl j) = true → i = j) := by
  have I := inv_reach cfg hc s h
  exact ⟨I.no_panic, I.closed_eq, I.stopped_init, I.unique⟩

/-- a `Stop` on a syncer that was never initialised or is already stopped changes nothing but its own pc and the mutex -/
theorem stop_again_noop (cfg : Cfg) (s : St) (i : Nat) (hi : s.cl i = .inT) (hst : (!s.init || s.stopped) = true) :
    ∃ pc, cstep cfg s i = some { s with cl := upd s.cl i pc, mu := .free } := by
  cases hin : s.init with
  | false => exact ⟨.retT, by simp [cstep, hi, hin]⟩
  | true =>
    have : s.stopped = true := by simpa [hin] using hst
    exact ⟨if cfg.waitFlushed then .waitFlushed else .retT, by simp [cstep, hi, hin, this]⟩

/-! ## what the two switches are for -/

def run1428 : List Act :=
  [.write 0, .client 0, .client 0,          -- one Write: initialised, the flush goroutine sits in its select
   .tick,                                    -- a tick arrives: the goroutine is about to call s.Sync()
   .stop 0, .client 0, .client 0]            -- Stop: s.mu, close(stop) — and waits for `done` under s.mu

/-- **issue 1428**: with the wait for `done` inside the critical section the machine deadlocks — `Stop` holds `s.mu`
    and waits for the flush goroutine, which waits for `s.mu`; `no_deadlock` is sensitive to exactly this -/
theorem lock_held_wait_deadlocks :
    ∃ s, Reach { n := 1, lockedWait := true } s ∧ ¬ Quiescent s ∧
      ∀ a, a.internal = true → step { n := 1, lockedWait := true } s a = none := by
  have hrun : ((runActs { n := 1, lockedWait := true } init run1428).map
      fun s => (s.cl 0, s.loop, s.mu)) = some (.inTwait, .wantS, .client 0) := by decide
  cases hr : runActs { n := 1, lockedWait := true } init run1428 with
  | none => rw [hr] at hrun; cases hrun
  | some s =>
    rw [hr] at hrun
    simp only [Option.map_some, Option.some.injEq, Prod.mk.injEq] at hrun
    obtain ⟨h0, hl, hm⟩ := hrun
    have hreach : Reach { n := 1, lockedWait := true } s := ⟨run1428, hr⟩
    refine ⟨s, hreach, ?_, ?_⟩
    · intro hq; have := hq.1 0; rw [h0] at this; cases this
    · intro a ha
      cases a with
      | client i =>
        by_cases hi : i = 0
        · subst hi; simp [step, cstep, h0, hl]
        · have := bound_reach _ s hreach i (by simp only []; omega)
          simp [step, cstep, this]
      | loop => simp [step, lstep, hl, hm]
      | write i => cases ha
      | sync i => cases ha
      | stop i => cases ha
      | tick => cases ha

def runF11 : List Act :=
  [.write 0, .client 0, .client 0,           -- one Write is buffered
   .stop 0, .client 0, .client 0,             -- Stop #1 signals the shutdown and waits for `done`
   .stop 1, .client 1, .client 1]             -- Stop #2 finds `stopped` set and returns

/-- **F11**: when a `Stop` that finds the syncer stopped does not wait for `flushed`, a second, concurrent `Stop`
    returns while the buffered write has not been flushed and the flush goroutine is still running;
    `stop_returns_after_shutdown` is sensitive to exactly this -/
theorem second_stop_returns_early :
    ∃ s, Reach { n := 2, waitFlushed := false } s ∧ s.cl 1 = .retT ∧ s.stopped = true ∧
      s.flushed < s.accAtStop ∧ s.loop ≠ .finished := by
  have hrun : ((runActs { n := 2, waitFlushed := false } init runF11).map
      fun s => (s.cl 1, s.stopped, s.flushed, s.accAtStop, s.loop)) = some (.retT, true, 0, 1, .select) := by decide
  cases hr : runActs { n := 2, waitFlushed := false } init runF11 with
  | none => rw [hr] at hrun; cases hrun
  | some s =>
    rw [hr] at hrun
    simp only [Option.map_some, Option.some.injEq, Prod.mk.injEq] at hrun
    obtain ⟨h1, h2, h3, h4, h5⟩ := hrun
    exact ⟨s, ⟨runF11, hr⟩, h1, h2, by omega, by rw [h5]; simp⟩

/-- non-vacuity of the repaired machine: on the same schedule the second `Stop` is held at `<-flushed` -/
example : ((runActs { n := 2 } init runF11).map
      fun s => (s.cl 0, s.cl 1, s.flushedClosed, (step { n := 2 } s (.client 1)).isSome)) =
    some (.waitDone, .waitFlushed, false, false) := by decide

/-- … and a complete run: Write, two concurrent Stops, everything returns, the goroutine is gone, all is flushed -/
example : ((runActs { n := 2 } init
      (runF11 ++ [.loop, .client 0, .client 0, .client 0, .client 0, .client 1, .client 0, .client 1])).map
      fun s => (s.cl 0, s.cl 1, s.loop, s.stopped, s.flushed, s.accAtStop, s.panicked)) =
    some (.idle, .idle, .finished, true, 1, 1, false) := by rfl

/-- the hypotheses of `stop_returns_after_shutdown` are satisfiable: the step that lets the second `Stop` return -/
example : ((runActs { n := 2 } init
      (runF11 ++ [.loop, .client 0, .client 0, .client 0, .client 0])).bind
      fun s => (cstep { n := 2 } s 1).map fun s' => (s'.cl 1, s'.stopped, s'.loop, s'.flushed)) =
    some (.retT, true, .finished, 1) := by rfl

/-! ## the tie of the thread machine to the source (table `Gen/BwsFacts.lean`, re-extracted on every run) -/

/-- the synchronisation skeleton `BwsConc.cstep` / `lstep` were transcribed from: mutexes, channels and flags of the
    type, and every method's lock / unlock / close / receive / go / flag assignment / own-method call with the control
    structure around them.  (`Write` and `Sync` take `s.mu` with a deferred unlock; `initialize` starts exactly one
    flush goroutine; `flushLoop` selects on `ticker.C` and `stop` without a default and closes `done` when it returns;
    `Stop` tests the two flags and signals under `s.mu`; a call that found `stopped` set waits for `flushed`; the call
    that shuts down waits for `done`, syncs, and closes `flushed` when it returns.) -/
def expectedSkeleton : List (String × List (String × String)) := [
  ("Stop", [("func-call", ""), ("lock", "s.mu"), ("defer-unlock", "s.mu"),
              ("if", "!s.initialized"), ("return", ""), ("end", ""),
              ("if", "s.stopped"), ("read", "flushed = s.flushed"), ("return", ""), ("end", ""),
              ("set", "s.stopped = true"), ("close", "s.stop"), ("return", ""), ("end", ""),
            ("if", "!stopped"),
              ("if", "flushed != nil"), ("recv", "flushed"), ("end", ""),
              ("return", ""), ("end", ""),
            ("defer-close", "s.flushed"), ("recv", "s.done"), ("call", "s.Sync"), ("return", "")]),
  ("Sync", [("lock", "s.mu"), ("defer-unlock", "s.mu"), ("if", "s.initialized"), ("end", ""), ("return", "")]),
  ("Write", [("lock", "s.mu"), ("defer-unlock", "s.mu"),
             ("if", "!s.initialized"), ("call", "s.initialize"), ("end", ""),
             ("if", "…"), ("if", "…"), ("return", ""), ("end", ""), ("end", ""), ("return", "")]),
  ("flushLoop", [("defer-close", "s.done"), ("for", ""), ("select", ""),
                 ("case-recv", "s.ticker.C"), ("call", "s.Sync"),
                 ("case-recv", "s.stop"), ("return", ""), ("end", ""), ("end", "")]),
  ("initialize", [("set", "s.stop = make(…)"), ("set", "s.done = make(…)"), ("set", "s.flushed = make(…)"),
                  ("set", "s.initialized = true"), ("go", "s.flushLoop")])]

theorem skeleton_as_modelled :
    Gen.bwsSkeleton = expectedSkeleton ∧
    Gen.bwsSyncFields = ["mu sync.Mutex", "initialized bool", "stopped bool", "stop chan", "done chan", "flushed chan"] := by
  decide

/-- what the machine's shape depends on, read off the extracted skeleton by the lock-set analysis `BwsSkel.heldAt`:
    `Stop` waits for `done`, waits for `flushed` and runs its final `Sync` holding no mutex — in particular not `s.mu`
    (issue 1428) —, tests and sets `stopped`, copies `s.flushed` and closes `stop` under `s.mu`, the flush goroutine
    calls `Sync` holding nothing, and `initialize` (hence `go flushLoop`) runs under `s.mu` -/
theorem waits_outside_mu :
    BwsSkel.heldWhen Gen.bws_Stop ("recv", "s.done") = [[]] ∧
    BwsSkel.heldWhen Gen.bws_Stop ("recv", "flushed") = [[]] ∧
    BwsSkel.heldWhen Gen.bws_Stop ("call", "s.Sync") = [[]] ∧
    BwsSkel.heldWhen Gen.bws_Stop ("close", "s.stop") = [["s.mu"]] ∧
    BwsSkel.heldWhen Gen.bws_Stop ("set", "s.stopped = true") = [["s.mu"]] ∧
    BwsSkel.heldWhen Gen.bws_Stop ("read", "flushed = s.flushed") = [["s.mu"]] ∧
    BwsSkel.heldWhen Gen.bws_flushLoop ("call", "s.Sync") = [[]] ∧
    BwsSkel.heldWhen Gen.bws_Write ("call", "s.initialize") = [["s.mu"]] := by
  decide

end Conc

end ZapVerif.C12

/-! ## `BufferedWriteSyncer.Write/Sync` ARE the source (table `Gen/TransLocked.lean`)

The bufio.Writer is a value with parameters `avail`, `buffered`, `flush`, `bwrite` (Model/Bws.lean instantiates them with
`St.avail`, `buf.length`, `flush`, `bufioWrite`).  For every writer, every chunk and every outcome the interpreted
functions: take the mutex first and release it LAST on every path (`defer s.mu.Unlock()`), initialise once, flush
first exactly when the chunk does not fit and something is buffered — the rule behind `whole_writes` — return
`(0, err)` without writing when that flush fails, and otherwise do one `bufio.Write`; `Sync` flushes (if initialised),
then syncs the sink, and returns both errors.  `bws_write_shape_is_model` shows that `Bws.write` has this shape. -/
namespace ZapVerif.C12
set_option linter.unusedSimpArgs false
open ZapVerif ZapVerif.GoMini ZapVerif.TransLocked ZapVerif.Gen.TransLocked

def evLock (mu : Val) : Val := .list [TransLocked.nm "Mutex.Lock", mu]
def evUnlock (mu : Val) : Val := .list [TransLocked.nm "Mutex.Unlock", mu]
def evFlush (w : Val) : Val := .list [TransLocked.nm "bufio.Flush", w]
def evBWrite (w : Val) (bs : Bytes) : Val := .list [TransLocked.nm "bufio.Write", w, .bytes bs]
def evWSync (ws : Val) : Val := .list [TransLocked.nm "WriteSyncer.Sync", ws]

/-- result, final writer and recorded calls of `BufferedWriteSyncer.Write` on an initialised writer `w0` -/
def bwsWriteSpec (P : Par) (mu w0 : Val) (bs : Bytes) : (Val × Nat × List Val) × List Val :=
  (writeShape (fun e : List Val => !e.isEmpty) P.avail P.buffered P.flush P.bwrite w0 bs,
   [evLock mu] ++
   (if (bs.length : Int) > P.avail w0 ∧ P.buffered w0 > 0 then
      (if (P.flush w0).2 ≠ [] then [evFlush w0] else [evFlush w0, evBWrite (P.flush w0).1 bs])
    else [evBWrite w0 bs]) ++ [evUnlock mu])

theorem BufferedWriteSyncer_Write_matches_source (P : Par) (mu : Val) (init : Bool) (w ws : Val) (size : Int) (bs : Bytes)
    (ev : List Val) (fuel : Nat) :
    run (X P) (fuel + 1) "BufferedWriteSyncer_Write" [.bytes bs] (bwFld mu init w ws size ev) =
      .done [.int (bwsWriteSpec P mu (if init then w else P.init w ws size) bs).1.2.1,
             .list (bwsWriteSpec P mu (if init then w else P.init w ws size) bs).1.2.2]
        (bwFld mu true (bwsWriteSpec P mu (if init then w else P.init w ws size) bs).1.1 ws size
          (ev ++ (bwsWriteSpec P mu (if init then w else P.init w ws size) bs).2)) := by
  refine run_of_fin (X P) _ _ Gen.TransLocked.BufferedWriteSyncer_Write [.bytes bs] _ _ _ rfl rfl ?_
  show (exec (X P) (fuel + 1) BufferedWriteSyncer_Write_body ⟨[("p0", .bytes bs)], _⟩).fin = _
  rw [exec_succ]
  have hpos : ∀ k : Nat, ¬ ((k : Int) + 1 = 0) := by intro k; omega
  cases init
  · by_cases hpre : (bs.length : Int) > P.avail (P.init w ws size) ∧ P.buffered (P.init w ws size) > 0
    · cases hf : (P.flush (P.init w ws size)).2 with
      | nil =>
        simp [BufferedWriteSyncer_Write_body, bwsWriteSpec, writeShape, hpre, hpre.1, hpre.2, hf, evLock, evUnlock, evFlush,
          evBWrite, nm_lock, nm_unlock, nm_flush, nm_bwrite, hpos, List.append_assoc]
      | cons e r =>
        simp [BufferedWriteSyncer_Write_body, bwsWriteSpec, writeShape, hpre, hpre.1, hpre.2, hf, evLock, evUnlock, evFlush,
          evBWrite, nm_lock, nm_unlock, nm_flush, nm_bwrite, hpos, List.append_assoc]
    · have hpre' : ¬ (P.avail (P.init w ws size) < bs.length ∧ 0 < P.buffered (P.init w ws size)) := hpre
      by_cases h1 : P.avail (P.init w ws size) < bs.length
      · have h2 : ¬ 0 < P.buffered (P.init w ws size) := fun h => hpre' ⟨h1, h⟩
        simp [BufferedWriteSyncer_Write_body, bwsWriteSpec, writeShape, hpre, h1, h2, evLock, evUnlock,
          evBWrite, nm_lock, nm_unlock, nm_bwrite, List.append_assoc]
      · simp [BufferedWriteSyncer_Write_body, bwsWriteSpec, writeShape, hpre, h1, evLock, evUnlock,
          evBWrite, nm_lock, nm_unlock, nm_bwrite, List.append_assoc]
  · by_cases hpre : (bs.length : Int) > P.avail w ∧ P.buffered w > 0
    · cases hf : (P.flush w).2 with
      | nil =>
        simp [BufferedWriteSyncer_Write_body, bwsWriteSpec, writeShape, hpre, hpre.1, hpre.2, hf, evLock, evUnlock, evFlush,
          evBWrite, nm_lock, nm_unlock, nm_flush, nm_bwrite, hpos, List.append_assoc]
      | cons e r =>
        simp [BufferedWriteSyncer_Write_body, bwsWriteSpec, writeShape, hpre, hpre.1, hpre.2, hf, evLock, evUnlock, evFlush,
          evBWrite, nm_lock, nm_unlock, nm_flush, nm_bwrite, hpos, List.append_assoc]
    · have hpre' : ¬ (P.avail w < bs.length ∧ 0 < P.buffered w) := hpre
      by_cases h1 : P.avail w < bs.length
      · have h2 : ¬ 0 < P.buffered w := fun h => hpre' ⟨h1, h⟩
        simp [BufferedWriteSyncer_Write_body, bwsWriteSpec, writeShape, hpre, h1, h2, evLock, evUnlock,
          evBWrite, nm_lock, nm_unlock, nm_bwrite, List.append_assoc]
      · simp [BufferedWriteSyncer_Write_body, bwsWriteSpec, writeShape, hpre, h1, evLock, evUnlock,
          evBWrite, nm_lock, nm_unlock, nm_bwrite, List.append_assoc]

/-- the recorded calls and the result of `BufferedWriteSyncer.Sync`: lock, flush (only when initialised), sync the sink,
    unlock; the result is `multierr.Append(flushErr, syncErr)` -/
theorem BufferedWriteSyncer_Sync_matches_source (P : Par) (mu : Val) (init : Bool) (w : Val) (n : Int) (werrs serrs : List Val)
    (size : Int) (ev : List Val) (fuel : Nat) :
    run (X P) (fuel + 1) "BufferedWriteSyncer_Sync" [] (bwFld mu init w (sinkV n werrs serrs) size ev) =
      .done [.list ((if init then (P.flush w).2 else []) ++ serrs)]
        (bwFld mu init (if init then (P.flush w).1 else w) (sinkV n werrs serrs) size
          (ev ++ [evLock mu] ++ (if init then [evFlush w] else []) ++ [evWSync (sinkV n werrs serrs), evUnlock mu])) := by
  refine run_of_fin (X P) _ _ Gen.TransLocked.BufferedWriteSyncer_Sync [] _ _ _ rfl rfl ?_
  show (exec (X P) (fuel + 1) BufferedWriteSyncer_Sync_body ⟨[], _⟩).fin = _
  rw [exec_succ]
  cases init <;>
  simp [BufferedWriteSyncer_Sync_body, evLock, evUnlock, evFlush, evWSync, nm_lock, nm_unlock, nm_flush, nm_wsync,
    List.append_assoc]

/-- `Bws.write` (the model `whole_writes` is proved about) has exactly the interpreted shape, with `St.avail`,
    `buf.length`, `Bws.flush` and `Bws.bufioWrite` as the bufio.Writer and `init := true` as `initialize()` -/
theorem bws_write_shape_is_model (s : Bws.St) (bs : Bytes) :
    Bws.write s bs =
      writeShape (fun e : Option Bws.EK => e.isSome) (fun t : Bws.St => (t.avail : Int)) (fun t => (t.buf.length : Int))
        Bws.flush Bws.bufioWrite { s with init := true } bs := by
  unfold Bws.write writeShape
  simp only [gt_iff_lt, Int.ofNat_lt, Int.natCast_pos]
  split
  · cases h : Bws.flush { s with init := true } with
    | mk s1 e => cases e <;> simp
  · rfl

end ZapVerif.C12
