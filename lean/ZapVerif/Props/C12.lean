import ZapVerif.Model.Bws
namespace ZapVerif.C12
end ZapVerif.C12
