import ZapVerif.Proofs.Bws
import ZapVerif.Proofs.BwsConc
import ZapVerif.Proofs.BwsConcBytes
import ZapVerif.Model.BwsSkel
import ZapVerif.Gen.BwsFacts
import ZapVerif.Proofs.TransLocked
/-! # C12 — BufferedWriteSyncer delivers every byte once, in order, in whole writes

Part 1 (this section): one `BufferedWriteSyncer{WS: sink, Size: size}` driven by an arbitrary history of
`Write` / `Sync` / tick / `Stop` (`Bws.Op`), over a sink whose every `Write` and `Sync` outcome is scripted
(`mk size wo so`; `wo = []` is the reliable sink).  `bufio.Writer` is modelled from Go's source including the
sticky error, short writes and the large-write path.  All sizes, write lengths and histories are unbounded.

Part 2: the thread machine (writers, syncers, stoppers, the flush goroutine, the mutex, the `stop`/`done`/`flushed`
channels, ticks) — see `ZapVerif.C12.Conc` below. -/
namespace ZapVerif.C12
section Seq
open ZapVerif ZapVerif.Bws

/-! ## every byte once, in order (any sink, failing or not) -/

/-- **stream invariant**: what the sink took so far, followed by what is buffered, is exactly the concatenation of
    the accepted parts of all writes, in order — nothing lost, duplicated or reordered, whatever the sink does -/
theorem stream_inv (size : Int) (wo : List WOut) (so : List Bool) (ops : List Op) :
    taken (run (mk size wo so) ops).sink ++ (run (mk size wo so) ops).buf = accepted (mk size wo so) ops := by
  have := content_run ops (mk size wo so) (wf_mk _ _ _)
  simpa [content, mk] using this

/-- on a reliable sink every write is accepted in full, so the stream is the concatenation of all writes -/
theorem stream_inv_reliable (size : Int) (so : List Bool) (ops : List Op) :
    taken (run (mk size [] so) ops).sink ++ (run (mk size [] so) ops).buf = (writesOf ops).flatten := by
  rw [stream_inv, accepted_reliable ops [] _ (rinv_mk size so)]

/-- **bounded buffering**: never more than the configured size is held back -/
theorem bounded (size : Int) (wo : List WOut) (so : List Bool) (ops : List Op) :
    (run (mk size wo so) ops).buf.length ≤ effSize size ∧
    (accepted (mk size wo so) ops).length ≤ (taken (run (mk size wo so) ops).sink).length + effSize size := by
  have hb := (wf_run ops _ (wf_mk size wo so)).bound
  have hs : ∀ (ops : List Op) (s : St), Wf s → (run s ops).size = s.size := by
    intro ops
    induction ops with
    | nil => intro s _; rfl
    | cons o os ih =>
      intro s h
      simp only [run]; rw [ih _ (wf_step s o h)]
      cases o with
      | write bs => exact (write_spec s bs h.bound).size
      | sync => exact (sync_spec s).size
      | tick => simp only [step, tick]; split; exact (sync_spec s).size; rfl
      | stop => simp only [step, stop]; split; rfl; exact (sync_spec _).size
  rw [hs ops _ (wf_mk size wo so)] at hb
  refine ⟨hb, ?_⟩
  rw [← stream_inv, List.length_append]
  exact Nat.add_le_add_left hb _

/-! ## whole writes (reliable sink) -/

/-- **whole writes**: the caller writes are cut into contiguous groups; every sink write is the concatenation of one
    group (so no caller write — no log line — is ever split across two sink writes) and the buffer holds exactly the
    writes after the last group -/
theorem whole_writes (size : Int) (so : List Bool) (ops : List Op) :
    ∃ (groups : List (List Bytes)) (pending : List Bytes),
      writesOf ops = groups.flatten ++ pending ∧
      sinkWrites (run (mk size [] so) ops).sink = groups.map List.flatten ∧
      (run (mk size [] so) ops).buf = pending.flatten := by
  have := (rinv_run ops [] _ (rinv_mk size so)).aligned
  simpa [Aligned] using this

/-- and the sink took each of those writes completely (it is reliable) -/
theorem sink_writes_full (size : Int) (so : List Bool) (ops : List Op) :
    taken (run (mk size [] so) ops).sink = (sinkWrites (run (mk size [] so) ops).sink).flatten :=
  full_taken (rinv_run ops [] _ (rinv_mk size so)).full

/-! ## Sync, tick, Stop flush and sync the sink -/

/-- the three flushing operations at once: after `Sync`, after a processed tick, after the `Stop` that shuts the
    syncer down — provided the flush left no (sticky) write error — everything accepted so far is in the sink, and
    if the syncer was ever written to the last thing the sink saw is a `Sync` -/
theorem flush_op_flushes (size : Int) (wo : List WOut) (so : List Bool) (ops : List Op) (o : Op)
    (hf : FlushOp (run (mk size wo so) ops) o) (he : (run (mk size wo so) (ops ++ [o])).err = none) :
    taken (run (mk size wo so) (ops ++ [o])).sink = accepted (mk size wo so) (ops ++ [o]) ∧
    (run (mk size wo so) (ops ++ [o])).buf = [] ∧
    ((run (mk size wo so) ops).init = true → (run (mk size wo so) (ops ++ [o])).sink.getLast? = some .sync) := by
  have hw := wf_run ops _ (wf_mk size wo so)
  have hr : run (mk size wo so) (ops ++ [o]) = (step (run (mk size wo so) ops) o).1 := by
    rw [run_append]; rfl
  rw [hr] at he
  have hb := flushop_empty _ o hw hf he
  have hst := stream_inv size wo so (ops ++ [o])
  rw [hr] at hst ⊢
  rw [hb, List.append_nil] at hst
  exact ⟨hst, hb, fun hi => flushop_synced _ o hf hi⟩

/-- **Sync flushes**: when `Sync` reports no flush error, every byte accepted before it is in the sink and the
    sink's `Sync` was the last call made -/
theorem sync_flushes (size : Int) (wo : List WOut) (so : List Bool) (ops : List Op)
    (he : (sync (run (mk size wo so) ops)).2.1 = none) (hi : (run (mk size wo so) ops).init = true) :
    taken (sync (run (mk size wo so) ops)).1.sink = accepted (mk size wo so) ops ∧
    (sync (run (mk size wo so) ops)).1.sink.getLast? = some .sync := by
  have S := sync_spec (run (mk size wo so) ops)
  have hr : run (mk size wo so) (ops ++ [.sync]) = (sync (run (mk size wo so) ops)).1 := by rw [run_append]; rfl
  have he' : (run (mk size wo so) (ops ++ [.sync])).err = none := by rw [hr, ← S.err_eq hi]; exact he
  obtain ⟨h1, _, h3⟩ := flush_op_flushes size wo so ops .sync (Or.inl rfl) he'
  rw [hr] at h1 h3
  rw [accepted_append, flushop_accepts_nothing _ _ (Or.inl rfl), List.append_nil] at h1
  exact ⟨h1, h3 hi⟩

/-- `Sync` before the first `Write` (nothing was ever accepted): the sink is still synced -/
theorem sync_uninitialised (s : St) (hi : s.init = false) : (sync s).1.sink = s.sink ++ [.sync] := by
  simp [sync, wsSync, hi]

/-- **a processed tick flushes** (the flush goroutine exists: initialised and not stopped) -/
theorem tick_flushes (size : Int) (wo : List WOut) (so : List Bool) (ops : List Op)
    (hi : (run (mk size wo so) ops).init = true) (hs : (run (mk size wo so) ops).stopped = false)
    (he : (tick (run (mk size wo so) ops)).err = none) :
    taken (tick (run (mk size wo so) ops)).sink = accepted (mk size wo so) ops ∧
    (tick (run (mk size wo so) ops)).sink.getLast? = some .sync := by
  have hr : run (mk size wo so) (ops ++ [.tick]) = tick (run (mk size wo so) ops) := by rw [run_append]; rfl
  have hf : FlushOp (run (mk size wo so) ops) .tick := Or.inr ⟨Or.inl rfl, hs⟩
  obtain ⟨h1, _, h3⟩ := flush_op_flushes size wo so ops .tick hf (by rw [hr]; exact he)
  rw [hr] at h1 h3
  rw [accepted_append, flushop_accepts_nothing _ _ hf, List.append_nil] at h1
  exact ⟨h1, h3 hi⟩

/-- **Stop flushes**: the `Stop` that shuts an initialised syncer down returns after everything accepted before it
    is in the sink and the sink was synced; from then on no tick is processed (the flush goroutine is gone) -/
theorem stop_flushes (size : Int) (wo : List WOut) (so : List Bool) (ops : List Op)
    (hi : (run (mk size wo so) ops).init = true) (hs : (run (mk size wo so) ops).stopped = false)
    (he : (stop (run (mk size wo so) ops)).2.1 = none) :
    taken (stop (run (mk size wo so) ops)).1.sink = accepted (mk size wo so) ops ∧
    (stop (run (mk size wo so) ops)).1.sink.getLast? = some .sync ∧
    tick (stop (run (mk size wo so) ops)).1 = (stop (run (mk size wo so) ops)).1 := by
  have hr : run (mk size wo so) (ops ++ [.stop]) = (stop (run (mk size wo so) ops)).1 := by rw [run_append]; rfl
  have hf : FlushOp (run (mk size wo so) ops) .stop := Or.inr ⟨Or.inr rfl, hs⟩
  have hst : stop (run (mk size wo so) ops) = sync { run (mk size wo so) ops with stopped := true } := by
    simp [stop, hi, hs]
  have S := sync_spec { run (mk size wo so) ops with stopped := true }
  have he' : (run (mk size wo so) (ops ++ [.stop])).err = none := by
    rw [hr, hst, ← S.err_eq hi, ← hst]; exact he
  obtain ⟨h1, _, h3⟩ := flush_op_flushes size wo so ops .stop hf he'
  rw [hr] at h1 h3
  rw [accepted_append, flushop_accepts_nothing _ _ hf, List.append_nil] at h1
  refine ⟨h1, h3 hi, ?_⟩
  have : (stop (run (mk size wo so) ops)).1.stopped = true := by rw [hst]; exact S.stopped
  simp [tick, this]

/-- on a reliable sink the flush never fails: the three theorems above apply unconditionally -/
theorem reliable_never_fails (size : Int) (so : List Bool) (ops : List Op) :
    (run (mk size [] so) ops).err = none ∧ (sync (run (mk size [] so) ops)).2.1 = none ∧
    (stop (run (mk size [] so) ops)).2.1 = none ∧ (tick (run (mk size [] so) ops)).err = none := by
  have R := rinv_run ops [] _ (rinv_mk size so)
  refine ⟨R.rel.2, (sync_reliable _ R.rel fun hi => (R.wf.fresh hi).1).1, ?_, (rinv_tick R).rel.2⟩
  unfold stop; split
  · rfl
  · rename_i hc
    have hi : (run (mk size [] so) ops).init = true := by
      cases h : (run (mk size [] so) ops).init <;> simp [h] at hc ⊢
    exact (sync_reliable { run (mk size [] so) ops with stopped := true } R.rel (fun h => by simp [hi] at h)).1

/-- **Stop is idempotent**: a second `Stop` does nothing and returns nil (also when the first one failed to flush —
    zap's own test "stop twice") -/
theorem stop_idempotent (s : St) : stop (stop s).1 = ((stop s).1, none, false) := stop_twice s

/-! ## crash prefix -/

/-- **crash, any sink**: whatever prefix of its calls the sink has completed when the process dies, its content is a
    prefix of the accepted stream (no byte lost in the middle, duplicated or reordered) -/
theorem crash_stream_prefix (size : Int) (wo : List WOut) (so : List Bool) (ops : List Op) (pre : List Ev)
    (hp : pre <+: (run (mk size wo so) ops).sink) : taken pre <+: accepted (mk size wo so) ops := by
  have h1 := taken_prefix hp
  have h2 : taken (run (mk size wo so) ops).sink <+: accepted (mk size wo so) ops :=
    ⟨_, stream_inv size wo so ops⟩
  exact h1.trans h2

/-- **crash prefix** (reliable sink = a file whose `write(2)` calls are atomic): at every point of every history the
    sink content is (1) cut at a boundary between caller writes and (2) contains everything accepted before any
    flushing operation (`Sync`, processed tick, the shutting-down `Stop`) that had completed by then -/
theorem crash_prefix (size : Int) (so : List Bool) (ops : List Op) (pre : List Ev)
    (hp : pre <+: (run (mk size [] so) ops).sink) :
    (∃ k, taken pre = ((writesOf ops).take k).flatten) ∧
    (∀ ops1 o ops2, ops = ops1 ++ o :: ops2 → FlushOp (run (mk size [] so) ops1) o →
        (run (mk size [] so) (ops1 ++ [o])).sink <+: pre → (writesOf ops1).flatten <+: taken pre) := by
  have R := rinv_run ops [] _ (rinv_mk size so)
  refine ⟨?_, ?_⟩
  · have := aligned_prefix R.aligned R.full pre hp
    simpa using this
  · intro ops1 o ops2 _ hf hpre
    have R1 := rinv_run (ops1 ++ [o]) [] _ (rinv_mk size so)
    have hst := stream_inv_reliable size so (ops1 ++ [o])
    have hr : run (mk size [] so) (ops1 ++ [o]) = (step (run (mk size [] so) ops1) o).1 := by
      rw [run_append]; rfl
    have hb : (run (mk size [] so) (ops1 ++ [o])).buf = [] := by
      rw [hr]
      apply flushop_empty _ o (wf_run ops1 _ (wf_mk _ _ _)) hf
      rw [← hr]; exact R1.rel.2
    have hw : writesOf (ops1 ++ [o]) = writesOf ops1 := by
      rw [writesOf_append]
      rcases hf with rfl | ⟨rfl | rfl, _⟩ <;> simp [writesOf]
    rw [hb, List.append_nil, hw] at hst
    rw [← hst]
    exact taken_prefix hpre

/-! ## failing sinks -/

/-- **short count ⇒ error**: whenever `Write` reports fewer bytes than it was given it also reports an error
    (`io.Writer` contract; needs the loop of `bufio.Writer.Write` to have run to completion — `need_le_fuelFor`) -/
theorem short_count_has_error (size : Int) (wo : List WOut) (so : List Bool) (ops : List Op) (bs : Bytes)
    (h : (write (run (mk size wo so) ops) bs).2.1 < bs.length) :
    (write (run (mk size wo so) ops) bs).2.2 ≠ none :=
  (write_spec _ bs (wf_run ops _ (wf_mk size wo so)).bound).short_err h

/-- `Write` never reports more than it was given, and the error it returns is the one that sticks -/
theorem write_count_le (size : Int) (wo : List WOut) (so : List Bool) (ops : List Op) (bs : Bytes) :
    (write (run (mk size wo so) ops) bs).2.1 ≤ bs.length ∧
    (write (run (mk size wo so) ops) bs).2.2 = (write (run (mk size wo so) ops) bs).1.err :=
  ⟨(write_spec _ bs (wf_run ops _ (wf_mk size wo so)).bound).n_le,
   (write_spec _ bs (wf_run ops _ (wf_mk size wo so)).bound).err_eq⟩

/-- **the error is sticky** (bufio): after a failed or short sink write every later `Write` accepts nothing, hands the
    sink nothing and returns that error; `Sync` returns it too but still syncs the sink -/
theorem error_is_sticky (s : St) (e : EK) (he : s.err = some e) (bs : Bytes) :
    write s bs = ({ s with init := true }, 0, some e) ∧
    (s.init = true → (sync s).2.1 = some e ∧ (sync s).1.sink = s.sink ++ [.sync] ∧ (sync s).1.buf = s.buf) := by
  refine ⟨write_sticky s bs e he, fun hi => ?_⟩
  have hf : flush s = (s, some e) := (flush_spec s).sticky e he
  simp [sync, wsSync, hi, hf]

/-- a failed flush loses nothing: the bytes the sink did not take stay buffered (the stream invariant holds for
    failing sinks) and the flush error reaches the caller of `Sync` -/
theorem failed_flush_reported (s : St) (hi : s.init = true) (h : (sync s).1.buf ≠ []) : (sync s).2.1 ≠ none := by
  intro hn
  exact h ((sync_spec s).flushed (fun h' => by rw [hi] at h'; cases h') hn)

/-! ## non-vacuity: concrete histories -/

/-- size 4: "abc" is buffered, "de" does not fit ⇒ "abc" is flushed first and "de" buffered; Sync flushes it -/
example : (run (mk 4 [] []) [.write [97, 98, 99], .write [100, 101], .sync]).sink =
    [.write [97, 98, 99] 3, .write [100, 101] 2, .sync] := by decide

/-- a write larger than the buffer goes to the sink in one piece, after the buffered bytes -/
example : (run (mk 2 [] []) [.write [1], .write [2, 3, 4]]).sink = [.write [1] 1, .write [2, 3, 4] 3] := by decide

/-- exactly the free space: buffered, nothing reaches the sink; the tick flushes both writes as one sink write -/
example : (run (mk 3 [] []) [.write [1], .write [2, 3], .tick]).sink = [.write [1, 2, 3] 3, .sync] := by decide

/-- a short sink write (1 of 2 bytes, nil error) surfaces as `io.ErrShortWrite` from Sync, sticks, and the
    untaken byte stays buffered -/
example : (runRets (mk 4 [⟨1, false⟩] []) [.write [1, 2], .sync, .write [3]]) =
    [.wrote 2 none, .errs [.short], .wrote 0 (some .short)] ∧
    (run (mk 4 [⟨1, false⟩] []) [.write [1, 2], .sync, .write [3]]).buf = [2] := by decide

/-- F21 (not a violation of the statement, recorded here): bytes written after the shutdown stay buffered through a
    repeated `Stop` — which is a no-op — until the next `Sync` -/
example : (run (mk 4 [] []) [.write [1], .stop, .write [2], .stop]).buf = [2] ∧
    (run (mk 4 [] []) [.write [1], .stop, .write [2], .stop, .sync]).buf = [] := by decide

/-- the hypotheses of `sync_flushes` / `tick_flushes` / `stop_flushes` are satisfiable -/
example : (run (mk 4 [] []) [.write [1]]).init = true ∧ (run (mk 4 [] []) [.write [1]]).stopped = false ∧
    (stop (run (mk 4 [] []) [.write [1]])).2.1 = none := by decide

end Seq

/-! # Part 2 — the thread machine

Any number of goroutines calling `Write`, `Sync` and `Stop` in any order, the flush goroutine, ticks at any moment,
every interleaving (`BwsConc.Reach`).  `cfg.lockedWait = false ∧ cfg.waitFlushed = true` is the code as repaired
(issue 1428 upstream, F11 here); the two witnesses at the end show what each switch is there for. -/
namespace Conc
open ZapVerif.BwsConc

/-- **mutual exclusion**: at most one goroutine is inside a critical section of `s.mu` — so every concurrent run is,
    critical section by critical section, a sequential history of Part 1 -/
theorem mutex_excl (cfg : Cfg) (hc : cfg.lockedWait = false) (s : St) (h : Reach cfg s) :
    (∀ i j, inCS (s.cl i) = true → inCS (s.cl j) = true → i = j) ∧
    (s.loop = .inS → ∀ i, inCS (s.cl i) = false) := by
  have I := inv_reach cfg hc s h
  constructor
  · intro i j hi hj
    have a := (I.mu_cl i).2 hi
    have b := (I.mu_cl j).2 hj
    rw [a] at b; injection b
  · intro hl i
    cases hi : inCS (s.cl i) with
    | false => rfl
    | true =>
      have a := (I.mu_cl i).2 hi
      have b := I.mu_loop.2 hl
      rw [a] at b; cases b

/-- **no deadlock**: whenever a call is in flight or the flush goroutine is busy, some goroutine can move without
    anything arriving from outside (no new call, no tick) -/
theorem no_deadlock (cfg : Cfg) (hc : cfg.lockedWait = false) (s : St) (h : Reach cfg s) (hq : ¬ Quiescent s) :
    ∃ a s', a.internal = true ∧ step cfg s a = some s' := by
  obtain ⟨a, ha, hs⟩ := progress cfg hc s (inv_reach cfg hc s h) hq
  cases hst : step cfg s a with
  | none => rw [hst] at hs; cases hs
  | some t => exact ⟨a, t, ha, hst⟩

/-- … and every such step brings the system strictly closer to rest, so **every call returns**: finitely many
    internal steps lead from any reachable state to one where all clients are idle and the flush goroutine sits in
    its `select` (or has ended) -/
theorem calls_complete (cfg : Cfg) (hc : cfg.lockedWait = false) (s : St) (h : Reach cfg s) :
    ∃ acts s', (∀ a ∈ acts, a.internal = true) ∧ runActs cfg s acts = some s' ∧ Quiescent s' :=
  quiesces cfg hc _ s h (Nat.le_refl _)

/-- **every Stop waits for the shutdown to complete** (the repair of F11) and **Stop ends the loop**: at the moment
    any `Stop` call returns on a stopped syncer (`cstep` into `retT`), the flush goroutine has returned and a flush has
    completed that covers every write accepted before the shutdown was signalled -/
theorem stop_returns_after_shutdown (cfg : Cfg) (hc : cfg.lockedWait = false) (hw : cfg.waitFlushed = true) (s s' : St)
    (h : Reach cfg s) (i : Nat) (hs : cstep cfg s i = some s') (hret : s'.cl i = .retT) (hst : s'.stopped = true) :
    s'.loop = .finished ∧ s'.accAtStop ≤ s'.flushed := by
  have I := inv_reach cfg hc s h
  have I' := inv_reach cfg hc s' (reach_step cfg s s' (.client i) h hs)
  have hk := ret_flushedClosed cfg hw s s' i I hs hret hst
  obtain ⟨_, h2, h3⟩ := flushedClosed_done cfg s' I' hk
  exact ⟨h3, h2⟩

/-- the two halves under the names of the plan -/
theorem stop_ends_loop (cfg : Cfg) (hc : cfg.lockedWait = false) (hw : cfg.waitFlushed = true) (s s' : St)
    (h : Reach cfg s) (i : Nat) (hs : cstep cfg s i = some s') (hret : s'.cl i = .retT) (hst : s'.stopped = true) :
    s'.loop = .finished := (stop_returns_after_shutdown cfg hc hw s s' h i hs hret hst).1

theorem stop_flushes_conc (cfg : Cfg) (hc : cfg.lockedWait = false) (hw : cfg.waitFlushed = true) (s s' : St)
    (h : Reach cfg s) (i : Nat) (hs : cstep cfg s i = some s') (hret : s'.cl i = .retT) (hst : s'.stopped = true) :
    s'.accAtStop ≤ s'.flushed := (stop_returns_after_shutdown cfg hc hw s s' h i hs hret hst).2

/-- … and it never comes back: no goroutine is left behind after `Stop` -/
theorem loop_stays_finished (cfg : Cfg) (hc : cfg.lockedWait = false) (s s' : St) (a : Act) (h : Reach cfg s)
    (hl : s.loop = .finished) (hs : step cfg s a = some s') : s'.loop = .finished := by
  have I := inv_reach cfg hc s h
  have hin : s.init = true := by
    cases hi : s.init with
    | true => rfl
    | false => have := I.loop_init.2 hi; rw [hl] at this; cases this
  have hstart : ∀ i pc, start cfg s i pc = some s' → s'.loop = .finished := by
    intro i pc h
    unfold start at h
    split at h
    · injection h with h; subst h; exact hl
    · cases h
  cases a with
  | write i => exact hstart i _ hs
  | sync i => exact hstart i _ hs
  | stop i => exact hstart i _ hs
  | tick => simp [step, hl] at hs
  | loop => simp [step, lstep, hl] at hs
  | client i =>
    simp only [step] at hs
    unfold cstep at hs
    split at hs
    all_goals (try split at hs)
    all_goals (try split at hs)
    all_goals (try split at hs)
    all_goals (first | (cases hs; done) | skip)
    all_goals (injection hs with hs; subst hs; simp_all)

/-- **Stop may be called repeatedly, from anywhere**: neither `close(s.stop)` nor `close(s.flushed)` ever runs twice
    (a second close would panic), `stop` is closed exactly when `stopped` is set, a stopped syncer was initialised, and
    at most one `Stop` call is ever the one that shuts down -/
theorem stop_idempotent_conc (cfg : Cfg) (hc : cfg.lockedWait = false) (s : St) (h : Reach cfg s) :
    s.panicked = false ∧ s.stopClosed = s.stopped ∧ (s.stopped = true → s.init = true) ∧
    (∀ i j, shutting (s.cl i) = true → shutting (s.cl j) = true → i = j) := by
  have I := inv_reach cfg hc s h
  exact ⟨I.no_panic, I.closed_eq, I.stopped_init, I.unique⟩

/-- a `Stop` on a syncer that was never initialised or is already stopped changes nothing but its own pc and the mutex -/
theorem stop_again_noop (cfg : Cfg) (s : St) (i : Nat) (hi : s.cl i = .inT) (hst : (!s.init || s.stopped) = true) :
    ∃ pc, cstep cfg s i = some { s with cl := upd s.cl i pc, mu := .free } := by
  cases hin : s.init with
  | false => exact ⟨.retT, by simp [cstep, hi, hin]⟩
  | true =>
    have : s.stopped = true := by simpa [hin] using hst
    exact ⟨if cfg.waitFlushed then .waitFlushed else .retT, by simp [cstep, hi, hin, this]⟩

/-! ## what the two switches are for -/

def run1428 : List Act :=
  [.write 0, .client 0, .client 0,          -- one Write: initialised, the flush goroutine sits in its select
   .tick,                                    -- a tick arrives: the goroutine is about to call s.Sync()
   .stop 0, .client 0, .client 0]            -- Stop: s.mu, close(stop) — and waits for `done` under s.mu

/-- **issue 1428**: with the wait for `done` inside the critical section the machine deadlocks — `Stop` holds `s.mu`
    and waits for the flush goroutine, which waits for `s.mu`; `no_deadlock` is sensitive to exactly this -/
theorem lock_held_wait_deadlocks :
    ∃ s, Reach { n := 1, lockedWait := true } s ∧ ¬ Quiescent s ∧
      ∀ a, a.internal = true → step { n := 1, lockedWait := true } s a = none := by
  have hrun : ((runActs { n := 1, lockedWait := true } init run1428).map
      fun s => (s.cl 0, s.loop, s.mu)) = some (.inTwait, .wantS, .client 0) := by decide
  cases hr : runActs { n := 1, lockedWait := true } init run1428 with
  | none => rw [hr] at hrun; cases hrun
  | some s =>
    rw [hr] at hrun
    simp only [Option.map_some, Option.some.injEq, Prod.mk.injEq] at hrun
    obtain ⟨h0, hl, hm⟩ := hrun
    have hreach : Reach { n := 1, lockedWait := true } s := ⟨run1428, hr⟩
    refine ⟨s, hreach, ?_, ?_⟩
    · intro hq; have := hq.1 0; rw [h0] at this; cases this
    · intro a ha
      cases a with
      | client i =>
        by_cases hi : i = 0
        · subst hi; simp [step, cstep, h0, hl]
        · have := bound_reach _ s hreach i (by simp only []; omega)
          simp [step, cstep, this]
      | loop => simp [step, lstep, hl, hm]
      | write i => cases ha
      | sync i => cases ha
      | stop i => cases ha
      | tick => cases ha

def runF11 : List Act :=
  [.write 0, .client 0, .client 0,           -- one Write is buffered
   .stop 0, .client 0, .client 0,             -- Stop #1 signals the shutdown and waits for `done`
   .stop 1, .client 1, .client 1]             -- Stop #2 finds `stopped` set and returns

/-- **F11**: when a `Stop` that finds the syncer stopped does not wait for `flushed`, a second, concurrent `Stop`
    returns while the buffered write has not been flushed and the flush goroutine is still running;
    `stop_returns_after_shutdown` is sensitive to exactly this -/
theorem second_stop_returns_early :
    ∃ s, Reach { n := 2, waitFlushed := false } s ∧ s.cl 1 = .retT ∧ s.stopped = true ∧
      s.flushed < s.accAtStop ∧ s.loop ≠ .finished := by
  have hrun : ((runActs { n := 2, waitFlushed := false } init runF11).map
      fun s => (s.cl 1, s.stopped, s.flushed, s.accAtStop, s.loop)) = some (.retT, true, 0, 1, .select) := by decide
  cases hr : runActs { n := 2, waitFlushed := false } init runF11 with
  | none => rw [hr] at hrun; cases hrun
  | some s =>
    rw [hr] at hrun
    simp only [Option.map_some, Option.some.injEq, Prod.mk.injEq] at hrun
    obtain ⟨h1, h2, h3, h4, h5⟩ := hrun
    exact ⟨s, ⟨runF11, hr⟩, h1, h2, by omega, by rw [h5]; simp⟩

/-- non-vacuity of the repaired machine: on the same schedule the second `Stop` is held at `<-flushed` -/
example : ((runActs { n := 2 } init runF11).map
      fun s => (s.cl 0, s.cl 1, s.flushedClosed, (step { n := 2 } s (.client 1)).isSome)) =
    some (.waitDone, .waitFlushed, false, false) := by decide

/-- … and a complete run: Write, two concurrent Stops, everything returns, the goroutine is gone, all is flushed -/
example : ((runActs { n := 2 } init
      (runF11 ++ [.loop, .client 0, .client 0, .client 0, .client 0, .client 1, .client 0, .client 1])).map
      fun s => (s.cl 0, s.cl 1, s.loop, s.stopped, s.flushed, s.accAtStop, s.panicked)) =
    some (.idle, .idle, .finished, true, 1, 1, false) := by rfl

/-- the hypotheses of `stop_returns_after_shutdown` are satisfiable: the step that lets the second `Stop` return -/
example : ((runActs { n := 2 } init
      (runF11 ++ [.loop, .client 0, .client 0, .client 0, .client 0])).bind
      fun s => (cstep { n := 2 } s 1).map fun s' => (s'.cl 1, s'.stopped, s'.loop, s'.flushed)) =
    some (.retT, true, .finished, 1) := by rfl

/-! ## the tie of the thread machine to the source (table `Gen/BwsFacts.lean`, re-extracted on every run) -/

/-- the synchronisation skeleton `BwsConc.cstep` / `lstep` were transcribed from: mutexes, channels and flags of the
    type, and every method's lock / unlock / close / receive / go / flag assignment / own-method call with the control
    structure around them.  (`Write` and `Sync` take `s.mu` with a deferred unlock; `initialize` starts exactly one
    flush goroutine; `flushLoop` selects on `ticker.C` and `stop` without a default and closes `done` when it returns;
    `Stop` tests the two flags and signals under `s.mu`; a call that found `stopped` set waits for `flushed`; the call
    that shuts down waits for `done`, syncs, and closes `flushed` when it returns.) -/
def expectedSkeleton : List (String × List (String × String)) := [
  ("Stop", [("func-call", ""), ("lock", "s.mu"), ("defer-unlock", "s.mu"),
              ("if", "!s.initialized"), ("return", ""), ("end", ""),
              ("if", "s.stopped"), ("read", "flushed = s.flushed"), ("return", ""), ("end", ""),
              ("set", "s.stopped = true"), ("close", "s.stop"), ("return", ""), ("end", ""),
            ("if", "!stopped"),
              ("if", "flushed != nil"), ("recv", "flushed"), ("end", ""),
              ("return", ""), ("end", ""),
            ("defer-close", "s.flushed"), ("recv", "s.done"), ("call", "s.Sync"), ("return", "")]),
  ("Sync", [("lock", "s.mu"), ("defer-unlock", "s.mu"), ("if", "s.initialized"), ("end", ""), ("return", "")]),
  ("Write", [("lock", "s.mu"), ("defer-unlock", "s.mu"),
             ("if", "!s.initialized"), ("call", "s.initialize"), ("end", ""),
             ("if", "…"), ("if", "…"), ("return", ""), ("end", ""), ("end", ""), ("return", "")]),
  ("flushLoop", [("defer-close", "s.done"), ("for", ""), ("select", ""),
                 ("case-recv", "s.ticker.C"), ("call", "s.Sync"),
                 ("case-recv", "s.stop"), ("return", ""), ("end", ""), ("end", "")]),
  ("initialize", [("set", "s.stop = make(…)"), ("set", "s.done = make(…)"), ("set", "s.flushed = make(…)"),
                  ("set", "s.initialized = true"), ("go", "s.flushLoop")])]

theorem skeleton_as_modelled :
    Gen.bwsSkeleton = expectedSkeleton ∧
    Gen.bwsSyncFields = ["mu sync.Mutex", "initialized bool", "stopped bool", "stop chan", "done chan", "flushed chan"] := by
  decide

/-- what the machine's shape depends on, read off the extracted skeleton by the lock-set analysis `BwsSkel.heldAt`:
    `Stop` waits for `done`, waits for `flushed` and runs its final `Sync` holding no mutex — in particular not `s.mu`
    (issue 1428) —, tests and sets `stopped`, copies `s.flushed` and closes `stop` under `s.mu`, the flush goroutine
    calls `Sync` holding nothing, and `initialize` (hence `go flushLoop`) runs under `s.mu` -/
theorem waits_outside_mu :
    BwsSkel.heldWhen Gen.bws_Stop ("recv", "s.done") = [[]] ∧
    BwsSkel.heldWhen Gen.bws_Stop ("recv", "flushed") = [[]] ∧
    BwsSkel.heldWhen Gen.bws_Stop ("call", "s.Sync") = [[]] ∧
    BwsSkel.heldWhen Gen.bws_Stop ("close", "s.stop") = [["s.mu"]] ∧
    BwsSkel.heldWhen Gen.bws_Stop ("set", "s.stopped = true") = [["s.mu"]] ∧
    BwsSkel.heldWhen Gen.bws_Stop ("read", "flushed = s.flushed") = [["s.mu"]] ∧
    BwsSkel.heldWhen Gen.bws_flushLoop ("call", "s.Sync") = [[]] ∧
    BwsSkel.heldWhen Gen.bws_Write ("call", "s.initialize") = [["s.mu"]] := by
  decide

end Conc

/-! # Part 3 — the thread machine with bytes refines the sequential model

`Model/BwsConcBytes.lean`: the machine of Part 2 carrying the byte-level state of Part 1; every critical section of
`s.mu` executes its effect (`Bws.write`, `Bws.sync`, the first section of `Stop`) as one step.  `conc_refines_seq` is the
linearizability statement; the corollaries carry Part 1 over to ALL interleavings.  `d0` is the syncer nobody has
touched yet (`Bws.mk size wo so`: size, scripted sink). -/
namespace ConcBytes
open ZapVerif ZapVerif.Bws ZapVerif.BwsCB

/-- **linearizability**: for every schedule `acts` of the repaired machine that can run, with `s` the state reached:
    the linearization of the schedule — its critical sections in the order they acquired `s.mu`, a function of the
    schedule — is the list `s.hist` of completed sections followed by the at most one section in flight; the byte-level
    state (sink calls, bufio buffer, sticky error, scripts) is exactly what the sequential model computes by running the
    completed sections in that order; and every completed section returned what the sequential model returns there -/
theorem conc_refines_seq (cfg : BwsConc.Cfg) (hlw : cfg.lockedWait = false) (d0 : Bws.St) (h0 : Fresh d0)
    (acts : List Act) (s : BwsCB.St) (h : runActs cfg (init d0) acts = some s) :
    linearization cfg d0 acts = s.hist ++ inflight s ∧
    (inflight s).length ≤ 1 ∧ (s.c.mu = .free → inflight s = []) ∧
    s.d = lrun d0 (ops s.hist) ∧
    s.rets = lrets d0 (ops s.hist) := by
  have hJ := J_reach cfg hlw d0 h0 s ⟨acts, h⟩
  refine ⟨by simp only [linearization, h]; exact hJ.lin, ?_, ?_, hJ.data, hJ.rets⟩
  · unfold inflight; split <;> simp
  · intro hf; simp [inflight, hf]

/-- the linearization only grows along a schedule, by exactly the section that acquired the mutex in that step -/
theorem linearization_step (cfg : BwsConc.Cfg) (s s' : BwsCB.St) (a : Act) (h : BwsCB.step cfg s a = some s') :
    s'.acqs = s.acqs ∨ ∃ w o, s'.acqs = s.acqs ++ [(w, o)] ∧ s.c.mu = .free := by
  unfold BwsCB.step at h
  cases hc : BwsConc.step cfg s.c a.ctl with
  | none => rw [hc] at h; cases h
  | some c' =>
    rw [hc] at h; injection h with h; subst h
    cases a with
    | write i bs => exact Or.inl rfl
    | sync i => exact Or.inl rfl
    | stop i => exact Or.inl rfl
    | tick => exact Or.inl rfl
    | client i =>
      simp only [Act.ctl, BwsConc.step] at hc
      simp only [effect]
      cases hpc : s.c.cl i <;> simp only [BwsConc.cstep, hpc] at hc ⊢
      all_goals (first
        | exact Or.inl trivial
        | exact Or.inl rfl
        | (cases hc; done)
        | (split at hc
           · exact Or.inr ⟨_, _, rfl, by assumption⟩
           · cases hc))
    | loop =>
      simp only [Act.ctl, BwsConc.step] at hc
      simp only [effect]
      cases hl : s.c.loop <;> simp only [BwsConc.lstep, hl] at hc ⊢
      all_goals (first
        | exact Or.inl trivial
        | exact Or.inl rfl
        | (cases hc; done)
        | (split at hc
           · exact Or.inr ⟨_, _, rfl, by assumption⟩
           · cases hc))

/-- completed sections are never reordered or dropped: `hist` only grows, at the end.  In particular a `Write` that
    had returned before some `Sync` call started is in `hist` then, hence among the sections that acquired the mutex
    before that `Sync`'s section (`sync_flushes_conc`): real-time order is respected by the linearization -/
theorem hist_monotone (cfg : BwsConc.Cfg) (s s' : BwsCB.St) (a : Act) (h : BwsCB.step cfg s a = some s') :
    s.hist <+: s'.hist := by
  unfold BwsCB.step at h
  cases hc : BwsConc.step cfg s.c a.ctl with
  | none => rw [hc] at h; cases h
  | some c' =>
    rw [hc] at h; injection h with h; subst h
    cases a with
    | write i bs => exact List.prefix_refl _
    | sync i => exact List.prefix_refl _
    | stop i => exact List.prefix_refl _
    | tick => exact List.prefix_refl _
    | client i =>
      simp only [effect]
      split <;> first | exact List.prefix_refl _ | exact List.prefix_append _ _
    | loop =>
      simp only [effect]
      split <;> first | exact List.prefix_refl _ | exact List.prefix_append _ _

theorem hist_monotone_run (cfg : BwsConc.Cfg) (acts : List Act) : ∀ (s s' : BwsCB.St), runActs cfg s acts = some s' →
    s.hist <+: s'.hist := by
  induction acts with
  | nil => intro s s' h; simp only [runActs] at h; injection h with h; subst h; exact List.prefix_refl _
  | cons a as ih =>
    intro s s' h
    simp only [runActs] at h
    cases hs : BwsCB.step cfg s a with
    | none => rw [hs] at h; cases h
    | some t => rw [hs] at h; exact (hist_monotone cfg s t a hs).trans (ih t s' h)

/-- sequential histories are the special case of one goroutine: Part 1's `run` is `lrun` of the expanded history -/
theorem seq_is_linearized (s : Bws.St) (os : List Bws.Op) : lrun s (expand s os) = Bws.run s os := lrun_expand os s

/-- everything Part 2 proves about the control skeleton holds for the machine with bytes: its control projection is
    reachable there, and a step is enabled exactly when its control part is (bytes never block) -/
theorem control_is_part2 (cfg : BwsConc.Cfg) (d0 : Bws.St) (s : BwsCB.St) (h : Reach cfg d0 s) :
    BwsConc.Reach cfg s.c ∧ ∀ a, (BwsCB.step cfg s a).isSome = (BwsConc.step cfg s.c a.ctl).isSome :=
  ⟨reach_ctl cfg d0 s h, step_isSome cfg s⟩

/-- hence no deadlock with bytes either -/
theorem no_deadlock_bytes (cfg : BwsConc.Cfg) (hlw : cfg.lockedWait = false) (d0 : Bws.St) (s : BwsCB.St) (h : Reach cfg d0 s)
    (hq : ¬ BwsConc.Quiescent s.c) : ∃ a s', a.internal = true ∧ BwsCB.step cfg s a = some s' := by
  obtain ⟨a, c', ha, hs⟩ := Conc.no_deadlock cfg hlw s.c (reach_ctl cfg d0 s h) hq
  have lift : ∀ b : Act, b.ctl = a → ∃ s', b.internal = true ∧ BwsCB.step cfg s b = some s' := by
    intro b hb
    have : (BwsCB.step cfg s b).isSome = true := by rw [step_isSome, hb, hs]; rfl
    cases hst : BwsCB.step cfg s b with
    | none => rw [hst] at this; cases this
    | some t => exact ⟨t, by simp [Act.internal, hb, ha], rfl⟩
  cases a with
  | client i => obtain ⟨t, h1, h2⟩ := lift (.client i) rfl; exact ⟨_, t, h1, h2⟩
  | loop => obtain ⟨t, h1, h2⟩ := lift .loop rfl; exact ⟨_, t, h1, h2⟩
  | write i => cases ha
  | sync i => cases ha
  | stop i => cases ha
  | tick => cases ha

/-! ## Part 1 for all interleavings -/

/-- **stream invariant, all interleavings, any sink**: at every reachable state what the sink took followed by the
    buffer is the concatenation of the accepted parts of the Writes, in the order their sections acquired the mutex -/
theorem stream_inv_conc (cfg : BwsConc.Cfg) (hlw : cfg.lockedWait = false) (size : Int) (wo : List WOut) (so : List Bool)
    (s : BwsCB.St) (h : Reach cfg (mk size wo so) s) :
    taken s.d.sink ++ s.d.buf = laccepted (mk size wo so) (ops s.hist) := by
  have hJ := J_reach cfg hlw _ (fresh_mk size wo so) s h
  have := content_lrun (ops s.hist) (mk size wo so) (wf_mk size wo so)
  rw [← hJ.data] at this
  simpa [content, mk] using this

/-- **bounded buffering, all interleavings** -/
theorem bounded_conc (cfg : BwsConc.Cfg) (hlw : cfg.lockedWait = false) (size : Int) (wo : List WOut) (so : List Bool)
    (s : BwsCB.St) (h : Reach cfg (mk size wo so) s) : s.d.buf.length ≤ effSize size := by
  have hJ := J_reach cfg hlw _ (fresh_mk size wo so) s h
  have hb := hJ.wf.bound
  have hs : s.d.size = effSize size := by rw [hJ.data, lrun_size _ _ (wf_mk size wo so)]; rfl
  rw [hs] at hb; exact hb

/-- **whole writes, all interleavings** (reliable sink): the Writes, in acquisition order, are cut into contiguous
    groups; every sink write is the concatenation of one group — no goroutine's write is ever split or interleaved with
    another's — and the buffer holds the Writes after the last group -/
theorem whole_writes_conc (cfg : BwsConc.Cfg) (hlw : cfg.lockedWait = false) (size : Int) (so : List Bool)
    (s : BwsCB.St) (h : Reach cfg (mk size [] so) s) :
    ∃ (groups : List (List Bytes)) (pending : List Bytes),
      lwritesOf (ops s.hist) = groups.flatten ++ pending ∧
      sinkWrites s.d.sink = groups.map List.flatten ∧ s.d.buf = pending.flatten := by
  have hJ := J_reach cfg hlw _ (fresh_mk size [] so) s h
  have R := rinv_lrun (ops s.hist) [] _ (rinv_mk size so)
  rw [← hJ.data] at R
  simpa [Aligned] using R.aligned

/-- a goroutine is inside a critical section that ends with `s.Sync()`'s effect: a client's `Sync`, the final `Sync`
    of the `Stop` that shuts down, or the flush goroutine processing a tick -/
def InSync (s : BwsCB.St) : Who → Prop
  | .client i => s.c.cl i = .inS ∨ s.c.cl i = .inF
  | .loop => s.c.loop = .inS

def whoAct : Who → Act
  | .client i => .client i
  | .loop => .loop

/-- **Sync flushes, all interleavings**: when the section of a `Sync` (by a client, by a tick, or `Stop`'s final one)
    completes, it has applied the sequential `Bws.sync` to the state produced by exactly the sections that acquired the
    mutex before it; it returns what `Bws.sync` returns; and if the flush reported no error then every byte accepted by
    those earlier Writes is in the sink, nothing is buffered, and (once initialised) the sink's last call was `Sync` -/
theorem sync_flushes_conc (cfg : BwsConc.Cfg) (hlw : cfg.lockedWait = false) (size : Int) (wo : List WOut) (so : List Bool)
    (s s' : BwsCB.St) (w : Who) (h : Reach cfg (mk size wo so) s) (hin : InSync s w) (hs : BwsCB.step cfg s (whoAct w) = some s') :
    s.acqs = s.hist ++ [(w, .sync)] ∧ s'.hist = s.hist ++ [(w, .sync)] ∧
    s'.d = (Bws.sync s.d).1 ∧ s'.rets = s.rets ++ [.errs (errList (Bws.sync s.d).2)] ∧
    ((Bws.sync s.d).2.1 = none →
      taken s'.d.sink = laccepted (mk size wo so) (ops s.hist) ∧ s'.d.buf = [] ∧
      (s.d.init = true → s'.d.sink.getLast? = some .sync)) := by
  have hJ := J_reach cfg hlw _ (fresh_mk size wo so) s h
  have hJ' := J_reach cfg hlw _ (fresh_mk size wo so) s' (reach_step cfg _ s s' _ h hs)
  -- what the step does
  have key : s'.d = (Bws.sync s.d).1 ∧ s'.hist = s.hist ++ [(w, .sync)] ∧
      s'.rets = s.rets ++ [.errs (errList (Bws.sync s.d).2)] ∧ inflight s = [(w, .sync)] := by
    unfold BwsCB.step at hs
    cases hc : BwsConc.step cfg s.c (whoAct w).ctl with
    | none => rw [hc] at hs; cases hs
    | some c' =>
      rw [hc] at hs; injection hs with hs; subst hs
      cases w with
      | loop =>
        have hl : s.c.loop = .inS := hin
        have hmu : s.c.mu = .loop := hJ.ctl.mu_loop.2 hl
        simp [whoAct, effect, hl, fin, lstep, inflight, hmu]
      | client i =>
        rcases hin with hpc | hpc
        · have hmu : s.c.mu = .client i := (hJ.ctl.mu_cl i).2 (by rw [hpc]; rfl)
          simp [whoAct, effect, hpc, fin, lstep, inflight, hmu, opOf]
        · have hmu : s.c.mu = .client i := (hJ.ctl.mu_cl i).2 (by rw [hpc]; rfl)
          simp [whoAct, effect, hpc, fin, lstep, inflight, hmu, opOf]
  obtain ⟨k1, k2, k3, k4⟩ := key
  refine ⟨by rw [hJ.lin, k4], k2, k1, k3, fun he => ?_⟩
  have S := sync_spec s.d
  have herr : (Bws.sync s.d).1.err = none := by
    cases hi : s.d.init with
    | true => rw [← S.err_eq hi]; exact he
    | false => rw [(S.err_keep hi).1]; exact (hJ.wf.fresh hi).2.2
  obtain ⟨hb, hl⟩ := sync_section_flushes s.d hJ.wf herr
  have hst := stream_inv_conc cfg hlw size wo so s' (reach_step cfg _ s s' _ h hs)
  rw [k1, hb, List.append_nil, k2, ops_snoc, laccepted_append] at hst
  simp only [laccepted, List.append_nil] at hst
  exact ⟨by rw [k1]; exact hst, by rw [k1]; exact hb, fun hi => by rw [k1]; exact hl hi⟩

/-- **Stop flushes, all interleavings, byte level** (repaired protocol): at the moment ANY `Stop` call returns on a
    stopped syncer, the final `Sync` of the call that shut it down has completed: it is a completed section `k` of the
    linearization, after the section that set `stopped`; the sink has since only grown; and if that flush reported no
    error, nothing was buffered after it and every byte accepted by Writes that acquired the mutex before the shutdown
    was signalled (indeed before that final `Sync`) is in the sink now -/
theorem stop_flushes_conc_bytes (cfg : BwsConc.Cfg) (hlw : cfg.lockedWait = false) (hw : cfg.waitFlushed = true)
    (size : Int) (wo : List WOut) (so : List Bool) (s s' : BwsCB.St) (i : Nat)
    (h : Reach cfg (mk size wo so) s) (hs : BwsCB.step cfg s (.client i) = some s')
    (hret : s'.c.cl i = .retT) (hst : s'.c.stopped = true) :
    ∃ sF, s'.finalSt = some sF ∧ s'.markLen < s'.finalLen ∧ s'.finalLen ≤ s'.hist.length ∧
      (ops (s'.hist.take s'.finalLen)).getLast? = some .sync ∧
      sF = lrun (mk size wo so) (ops (s'.hist.take s'.finalLen)) ∧
      sF.sink <+: s'.d.sink ∧
      (sF.err = none → sF.buf = [] ∧
        taken sF.sink = laccepted (mk size wo so) (ops (s'.hist.take s'.finalLen)) ∧
        laccepted (mk size wo so) (ops (s'.hist.take s'.markLen)) <+: taken s'.d.sink) := by
  have hJ := J_reach cfg hlw _ (fresh_mk size wo so) s h
  have hJ' := J_reach cfg hlw _ (fresh_mk size wo so) s' (reach_step cfg _ s s' _ h hs)
  have hctl := step_ctl cfg s s' _ hs
  have hfc : s'.c.flushedClosed = true := BwsConc.ret_flushedClosed cfg hw s.c s'.c i hJ.ctl hctl hret hst
  cases hF : s'.finalSt with
  | none => have := (hJ'.fin_none hF).1; rw [hfc] at this; cases this
  | some sF =>
    obtain ⟨_, b, c, d, e⟩ := hJ'.fin_some sF hF
    have hsplit : ops s'.hist = ops (s'.hist.take s'.finalLen) ++ ops (s'.hist.drop s'.finalLen) := by
      simp only [ops, ← List.map_append, List.take_append_drop]
    have hpre : sF.sink <+: s'.d.sink := by
      rw [hJ'.data, hsplit, lrun_append, ← d]; exact lrun_sink_prefix _ _
    refine ⟨sF, rfl, c, b, e, d, hpre, fun herr => ?_⟩
    -- the last section of the prefix is a Sync: its effect
    obtain ⟨pre, hpreq⟩ : ∃ pre, ops (s'.hist.take s'.finalLen) = pre ++ [.sync] :=
      List.getLast?_eq_some_iff.mp e
    have hsF : sF = (Bws.sync (lrun (mk size wo so) pre)).1 := by rw [d, hpreq, lrun_snoc]; rfl
    have hwf : Wf (lrun (mk size wo so) pre) := wf_lrun _ _ (wf_mk size wo so)
    have hb : sF.buf = [] := by rw [hsF]; exact (sync_section_flushes _ hwf (by rw [← hsF]; exact herr)).1
    have hct := content_lrun (ops (s'.hist.take s'.finalLen)) (mk size wo so) (wf_mk size wo so)
    rw [← d] at hct
    have htk : taken sF.sink = laccepted (mk size wo so) (ops (s'.hist.take s'.finalLen)) := by
      simpa [content, hb, mk] using hct
    refine ⟨hb, htk, ?_⟩
    have hmk : s'.hist.take s'.markLen = (s'.hist.take s'.finalLen).take s'.markLen := by
      rw [List.take_take, Nat.min_eq_left (Nat.le_of_lt c)]
    have hsp : ops (s'.hist.take s'.finalLen) = ops (s'.hist.take s'.markLen) ++ ops ((s'.hist.take s'.finalLen).drop s'.markLen) := by
      rw [hmk]; simp only [ops, ← List.map_append, List.take_append_drop]
    have h1 : laccepted (mk size wo so) (ops (s'.hist.take s'.markLen)) <+: taken sF.sink := by
      rw [htk, hsp, laccepted_append]; exact List.prefix_append _ _
    exact h1.trans (taken_prefix hpre)

/-- **crash prefix, all interleavings** (reliable sink): whatever prefix of its calls the sink has completed when the
    process dies, at any point of any schedule, its content is cut at a boundary between Writes (taken in acquisition
    order) and contains every Write that acquired the mutex before any `Sync` section (client's, tick's or `Stop`'s
    final one) that had completed by then -/
theorem crash_prefix_conc (cfg : BwsConc.Cfg) (hlw : cfg.lockedWait = false) (size : Int) (so : List Bool)
    (s : BwsCB.St) (h : Reach cfg (mk size [] so) s) (pre : List Ev) (hp : pre <+: s.d.sink) :
    (∃ k, taken pre = ((lwritesOf (ops s.hist)).take k).flatten) ∧
    (∀ h1 w h2, s.hist = h1 ++ (w, .sync) :: h2 →
        (lrun (mk size [] so) (ops (h1 ++ [(w, .sync)]))).sink <+: pre →
        (lwritesOf (ops h1)).flatten <+: taken pre) := by
  have hJ := J_reach cfg hlw _ (fresh_mk size [] so) s h
  have R := rinv_lrun (ops s.hist) [] _ (rinv_mk size so)
  rw [← hJ.data] at R
  refine ⟨by simpa using aligned_prefix R.aligned R.full pre hp, ?_⟩
  intro h1 w h2 _ hpre
  have R1 := rinv_lrun (ops h1) [] _ (rinv_mk size so)
  have hsy := sync_reliable _ R1.rel (fun hi => (R1.wf.fresh hi).1)
  have hrun : lrun (mk size [] so) (ops (h1 ++ [(w, .sync)])) = (Bws.sync (lrun (mk size [] so) (ops h1))).1 := by
    rw [ops_snoc, lrun_snoc]; rfl
  have hct := content_lrun (ops (h1 ++ [(w, .sync)])) (mk size [] so) (wf_mk size [] so)
  rw [hrun] at hct hpre
  have hacc : laccepted (mk size [] so) (ops (h1 ++ [(w, .sync)])) = (lwritesOf (ops h1)).flatten := by
    rw [laccepted_reliable _ [] _ (rinv_mk size so), ops_snoc, lwritesOf_append]; simp [lwritesOf]
  rw [hacc] at hct
  have hc0 : content (mk size [] so) = [] := rfl
  have hb := hsy.2.2.1
  rw [hc0, List.nil_append] at hct
  unfold content at hct
  rw [hb, List.append_nil] at hct
  rw [← hct]
  exact taken_prefix hpre

/-! ## non-vacuity: three goroutines — a Write larger than the buffer racing a tick and a Stop -/

/-- client 0 writes "ab" (initialises, size 4); then client 1 calls Write of 5 bytes, a tick arrives and client 2 calls
    Stop, all three pending at once.  Schedule A: the big Write gets the mutex first, then the tick's Sync, then Stop. -/
def raceA : List Act :=
  [.write 0 [97, 98], .client 0, .client 0,
   .write 1 [1, 2, 3, 4, 5], .tick, .stop 2,
   .client 1, .client 1,                 -- big Write: flushes "ab", then goes to the sink in one piece
   .loop, .loop,                         -- the tick's Sync
   .client 2, .client 2,                 -- Stop's first section; then it waits for `done`
   .loop,                                -- the flush goroutine returns
   .client 2, .client 2, .client 2, .client 2, .client 2]   -- final Sync, close(flushed), return

example : ((runActs { n := 3 } (init (mk 4 [] [])) raceA).map fun s => (ops s.acqs, s.d.sink, s.d.buf, s.rets)) =
    some ([.write [97, 98], .write [1, 2, 3, 4, 5], .sync, .mark, .sync],
          [.write [97, 98] 2, .write [1, 2, 3, 4, 5] 5, .sync, .sync], [],
          [.wrote 2 none, .wrote 5 none, .errs [], .nothing, .errs []]) := by decide

/-- Schedule B: the tick's Sync wins, Stop's first section comes next, the big Write lands between the two halves of
    Stop and is flushed by Stop's final Sync section (it is larger than the buffer, so it went straight to the sink) -/
def raceB : List Act :=
  [.write 0 [97, 98], .client 0, .client 0,
   .write 1 [1, 2, 3, 4, 5], .tick, .stop 2,
   .loop, .loop,                         -- the tick's Sync flushes "ab"
   .client 2, .client 2,                 -- Stop's first section
   .client 1, .client 1,                 -- the big Write, after the shutdown was signalled
   .loop,
   .client 2, .client 2, .client 2, .client 2, .client 2]

example : ((runActs { n := 3 } (init (mk 4 [] [])) raceB).map fun s => (ops s.acqs, s.d.sink, s.markLen, s.finalLen)) =
    some ([.write [97, 98], .sync, .mark, .write [1, 2, 3, 4, 5], .sync],
          [.write [97, 98] 2, .sync, .write [1, 2, 3, 4, 5] 5, .sync], 3, 5) := by decide

/-- the hypotheses of `sync_flushes_conc` and `stop_flushes_conc_bytes` are satisfiable on these schedules -/
example : ((runActs { n := 3 } (init (mk 4 [] [])) (raceA.take 9)).map fun s => (s.c.loop, (Bws.sync s.d).2.1)) =
    some (.inS, none) := by decide

example : ((runActs { n := 3 } (init (mk 4 [] [])) (raceA.take 16)).bind fun s =>
      (BwsCB.step { n := 3 } s (.client 2)).map fun s' => (s'.c.cl 2, s'.c.stopped, s'.finalSt.map (·.err))) =
    some (.retT, true, some none) := by decide

end ConcBytes

end ZapVerif.C12

/-! ## `BufferedWriteSyncer.Write/Sync` ARE the source (table `Gen/TransLocked.lean`)

The bufio.Writer is a value with parameters `avail`, `buffered`, `flush`, `bwrite` (Model/Bws.lean instantiates them with
`St.avail`, `buf.length`, `flush`, `bufioWrite`).  For every writer, every chunk and every outcome the interpreted
functions: take the mutex first and release it LAST on every path (`defer s.mu.Unlock()`), initialise once, flush
first exactly when the chunk does not fit and something is buffered — the rule behind `whole_writes` — return
`(0, err)` without writing when that flush fails, and otherwise do one `bufio.Write`; `Sync` flushes (if initialised),
then syncs the sink, and returns both errors.  `bws_write_shape_is_model` shows that `Bws.write` has this shape. -/
namespace ZapVerif.C12
set_option linter.unusedSimpArgs false
open ZapVerif ZapVerif.GoMini ZapVerif.TransLocked ZapVerif.Gen.TransLocked

def evLock (mu : Val) : Val := .list [TransLocked.nm "Mutex.Lock", mu]
def evUnlock (mu : Val) : Val := .list [TransLocked.nm "Mutex.Unlock", mu]
def evFlush (w : Val) : Val := .list [TransLocked.nm "bufio.Flush", w]
def evBWrite (w : Val) (bs : Bytes) : Val := .list [TransLocked.nm "bufio.Write", w, .bytes bs]
def evWSync (ws : Val) : Val := .list [TransLocked.nm "WriteSyncer.Sync", ws]

/-- result, final writer and recorded calls of `BufferedWriteSyncer.Write` on an initialised writer `w0` -/
def bwsWriteSpec (P : Par) (mu w0 : Val) (bs : Bytes) : (Val × Nat × List Val) × List Val :=
  (writeShape (fun e : List Val => !e.isEmpty) P.avail P.buffered P.flush P.bwrite w0 bs,
   [evLock mu] ++
   (if (bs.length : Int) > P.avail w0 ∧ P.buffered w0 > 0 then
      (if (P.flush w0).2 ≠ [] then [evFlush w0] else [evFlush w0, evBWrite (P.flush w0).1 bs])
    else [evBWrite w0 bs]) ++ [evUnlock mu])

theorem BufferedWriteSyncer_Write_matches_source (P : Par) (mu : Val) (init : Bool) (w ws : Val) (size : Int) (bs : Bytes)
    (ev : List Val) (fuel : Nat) :
    run (X P) (fuel + 1) "BufferedWriteSyncer_Write" [.bytes bs] (bwFld mu init w ws size ev) =
      .done [.int (bwsWriteSpec P mu (if init then w else P.init w ws size) bs).1.2.1,
             .list (bwsWriteSpec P mu (if init then w else P.init w ws size) bs).1.2.2]
        (bwFld mu true (bwsWriteSpec P mu (if init then w else P.init w ws size) bs).1.1 ws size
          (ev ++ (bwsWriteSpec P mu (if init then w else P.init w ws size) bs).2)) := by
  refine run_of_fin (X P) _ _ Gen.TransLocked.BufferedWriteSyncer_Write [.bytes bs] _ _ _ rfl rfl ?_
  show (exec (X P) (fuel + 1) BufferedWriteSyncer_Write_body ⟨[("p0", .bytes bs)], _⟩).fin = _
  rw [exec_succ]
  have hpos : ∀ k : Nat, ¬ ((k : Int) + 1 = 0) := by intro k; omega
  cases init
  · by_cases hpre : (bs.length : Int) > P.avail (P.init w ws size) ∧ P.buffered (P.init w ws size) > 0
    · cases hf : (P.flush (P.init w ws size)).2 with
      | nil =>
        simp [BufferedWriteSyncer_Write_body, bwsWriteSpec, writeShape, hpre, hpre.1, hpre.2, hf, evLock, evUnlock, evFlush,
          evBWrite, nm_lock, nm_unlock, nm_flush, nm_bwrite, hpos, List.append_assoc]
      | cons e r =>
        simp [BufferedWriteSyncer_Write_body, bwsWriteSpec, writeShape, hpre, hpre.1, hpre.2, hf, evLock, evUnlock, evFlush,
          evBWrite, nm_lock, nm_unlock, nm_flush, nm_bwrite, hpos, List.append_assoc]
    · have hpre' : ¬ (P.avail (P.init w ws size) < bs.length ∧ 0 < P.buffered (P.init w ws size)) := hpre
      by_cases h1 : P.avail (P.init w ws size) < bs.length
      · have h2 : ¬ 0 < P.buffered (P.init w ws size) := fun h => hpre' ⟨h1, h⟩
        simp [BufferedWriteSyncer_Write_body, bwsWriteSpec, writeShape, hpre, h1, h2, evLock, evUnlock,
          evBWrite, nm_lock, nm_unlock, nm_bwrite, List.append_assoc]
      · simp [BufferedWriteSyncer_Write_body, bwsWriteSpec, writeShape, hpre, h1, evLock, evUnlock,
          evBWrite, nm_lock, nm_unlock, nm_bwrite, List.append_assoc]
  · by_cases hpre : (bs.length : Int) > P.avail w ∧ P.buffered w > 0
    · cases hf : (P.flush w).2 with
      | nil =>
        simp [BufferedWriteSyncer_Write_body, bwsWriteSpec, writeShape, hpre, hpre.1, hpre.2, hf, evLock, evUnlock, evFlush,
          evBWrite, nm_lock, nm_unlock, nm_flush, nm_bwrite, hpos, List.append_assoc]
      | cons e r =>
        simp [BufferedWriteSyncer_Write_body, bwsWriteSpec, writeShape, hpre, hpre.1, hpre.2, hf, evLock, evUnlock, evFlush,
          evBWrite, nm_lock, nm_unlock, nm_flush, nm_bwrite, hpos, List.append_assoc]
    · have hpre' : ¬ (P.avail w < bs.length ∧ 0 < P.buffered w) := hpre
      by_cases h1 : P.avail w < bs.length
      · have h2 : ¬ 0 < P.buffered w := fun h => hpre' ⟨h1, h⟩
        simp [BufferedWriteSyncer_Write_body, bwsWriteSpec, writeShape, hpre, h1, h2, evLock, evUnlock,
          evBWrite, nm_lock, nm_unlock, nm_bwrite, List.append_assoc]
      · simp [BufferedWriteSyncer_Write_body, bwsWriteSpec, writeShape, hpre, h1, evLock, evUnlock,
          evBWrite, nm_lock, nm_unlock, nm_bwrite, List.append_assoc]

/-- the recorded calls and the result of `BufferedWriteSyncer.Sync`: lock, flush (only when initialised), sync the sink,
    unlock; the result is `multierr.Append(flushErr, syncErr)` -/
theorem BufferedWriteSyncer_Sync_matches_source (P : Par) (mu : Val) (init : Bool) (w : Val) (n : Int) (werrs serrs : List Val)
    (size : Int) (ev : List Val) (fuel : Nat) :
    run (X P) (fuel + 1) "BufferedWriteSyncer_Sync" [] (bwFld mu init w (sinkV n werrs serrs) size ev) =
      .done [.list ((if init then (P.flush w).2 else []) ++ serrs)]
        (bwFld mu init (if init then (P.flush w).1 else w) (sinkV n werrs serrs) size
          (ev ++ [evLock mu] ++ (if init then [evFlush w] else []) ++ [evWSync (sinkV n werrs serrs), evUnlock mu])) := by
  refine run_of_fin (X P) _ _ Gen.TransLocked.BufferedWriteSyncer_Sync [] _ _ _ rfl rfl ?_
  show (exec (X P) (fuel + 1) BufferedWriteSyncer_Sync_body ⟨[], _⟩).fin = _
  rw [exec_succ]
  cases init <;>
  simp [BufferedWriteSyncer_Sync_body, evLock, evUnlock, evFlush, evWSync, nm_lock, nm_unlock, nm_flush, nm_wsync,
    List.append_assoc]

/-- `Bws.write` (the model `whole_writes` is proved about) has exactly the interpreted shape, with `St.avail`,
    `buf.length`, `Bws.flush` and `Bws.bufioWrite` as the bufio.Writer and `init := true` as `initialize()` -/
theorem bws_write_shape_is_model (s : Bws.St) (bs : Bytes) :
    Bws.write s bs =
      writeShape (fun e : Option Bws.EK => e.isSome) (fun t : Bws.St => (t.avail : Int)) (fun t => (t.buf.length : Int))
        Bws.flush Bws.bufioWrite { s with init := true } bs := by
  unfold Bws.write writeShape
  simp only [gt_iff_lt, Int.ofNat_lt, Int.natCast_pos]
  split
  · cases h : Bws.flush { s with init := true } with
    | mk s1 e => cases e <;> simp
  · rfl

end ZapVerif.C12
