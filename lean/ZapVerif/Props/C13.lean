import ZapVerif.Model.Writers
import ZapVerif.Proofs.Merge
import ZapVerif.Gen.Delegates
/-! # C13 — zap's writers and WriteSyncer combinators honour the io.Writer contract -/
namespace ZapVerif.C13
open ZapVerif ZapVerif.Writers

theorem multiRun_append (p : Bytes) (a b : List Out) :
    multiRun p (a ++ b) = b.foldl (multiStep p) (multiRun p a) := by
  simp [multiRun, List.foldl_append]

theorem fold_count_le (p : Bytes) (outs : List Out) (a : Acc) (c : Nat) (h : a.count = some c) :
    ∃ c', (outs.foldl (multiStep p) a).count = some c' ∧ c' ≤ c ∧ (∀ o ∈ outs, c' ≤ o.n) ∧
      (c' = c ∨ ∃ o ∈ outs, c' = o.n) := by
  induction outs generalizing a c with
  | nil => exact ⟨c, h, Nat.le_refl _, by simp, Or.inl rfl⟩
  | cons o r ih =>
    have hc : (multiStep p a o).count = some (min c o.n) := by simp [multiStep, h]
    obtain ⟨c', h1, h2, h3, h4⟩ := ih (multiStep p a o) (min c o.n) hc
    refine ⟨c', by simpa [List.foldl_cons] using h1, Nat.le_trans h2 (Nat.min_le_left _ _), ?_, ?_⟩
    · intro x hx
      rcases List.mem_cons.mp hx with rfl | hx
      · exact Nat.le_trans h2 (Nat.min_le_right _ _)
      · exact h3 x hx
    · rcases h4 with h4 | ⟨x, hx, hxe⟩
      · rcases Nat.le_total c o.n with hle | hle
        · left; rw [h4, Nat.min_eq_left hle]
        · right; exact ⟨o, by simp, by rw [h4, Nat.min_eq_right hle]⟩
      · right; exact ⟨x, List.mem_cons_of_mem _ hx, hxe⟩

/-- the count returned is the smallest count any sink reported (at least one sink) -/
theorem multi_count_min (p : Bytes) (o : Out) (outs : List Out) :
    (∀ x ∈ o :: outs, (multiWrite p (o :: outs)).1 ≤ x.n) ∧
    (∃ x ∈ o :: outs, (multiWrite p (o :: outs)).1 = x.n) := by
  have h0 : (multiStep p {} o).count = some o.n := by simp [multiStep]
  obtain ⟨c', h1, h2, h3, h4⟩ := fold_count_le p outs (multiStep p {} o) o.n h0
  have hv : (multiWrite p (o :: outs)).1 = c' := by
    simp [multiWrite, multiRun, List.foldl_cons, h1]
  rw [hv]
  constructor
  · intro x hx
    rcases List.mem_cons.mp hx with rfl | hx
    · exact h2
    · exact h3 x hx
  · rcases h4 with h4 | ⟨x, hx, hxe⟩
    · exact ⟨o, by simp, h4⟩
    · exact ⟨x, List.mem_cons_of_mem _ hx, hxe⟩

theorem fold_delivered (p : Bytes) (outs : List Out) (a : Acc) :
    (outs.foldl (multiStep p) a).delivered = a.delivered ++ List.replicate outs.length p ∧
    (outs.foldl (multiStep p) a).idx = a.idx + outs.length := by
  induction outs generalizing a with
  | nil => simp
  | cons o r ih =>
    have := ih (multiStep p a o)
    simp only [List.foldl_cons, List.length_cons]
    rw [this.1, this.2]
    simp [multiStep, List.replicate_succ, Nat.add_assoc, Nat.add_comm 1]

/-- identical bytes reach every sink, whatever earlier sinks returned -/
theorem multi_same_bytes_all (p : Bytes) (outs : List Out) :
    (multiRun p outs).delivered = List.replicate outs.length p := by
  have := (fold_delivered p outs {}).1
  simpa [multiRun] using this

theorem fold_errs (p : Bytes) (outs : List Out) (a : Acc) :
    (outs.foldl (multiStep p) a).errs =
      a.errs ++ ((outs.zipIdx a.idx).filter (·.1.err)).map (·.2) := by
  induction outs generalizing a with
  | nil => simp
  | cons o r ih =>
    simp only [List.foldl_cons, List.zipIdx_cons]
    rw [ih]
    by_cases he : o.err <;> simp [multiStep, he, List.filter_cons]

/-- all errors are returned, in sink order, and nothing else -/
theorem multi_errors_all (p : Bytes) (outs : List Out) :
    (multiWrite p outs).2 = ((outs.zipIdx).filter (·.1.err)).map (·.2) := by
  have := fold_errs p outs {}
  simpa [multiWrite, multiRun] using this

/-- Sync reaches every sink and reports every error -/
theorem multi_sync_all (errs : List Bool) :
    (multiSync errs).2 = List.replicate errs.length true ∧
    (multiSync errs).1 = ((errs.zipIdx).filter (·.1)).map (·.2) := by
  constructor
  · simp [multiSync]; induction errs with
    | nil => rfl
    | cons e r ih => simp [List.replicate_succ, ih]
  · rfl

/-- AddSync keeps an existing Sync and adds a no-op one otherwise; Write is relayed unchanged -/
theorem addsync_keeps (o : Out) (se : Bool) : addSync true o se = (o.n, o.err, true, se) := by simp [addSync]
theorem addsync_adds_nop (o : Out) (se : Bool) : addSync false o se = (o.n, o.err, false, false) := by simp [addSync]

/-- Lock relays results unchanged and does not layer a second lock -/
theorem lock_relays (o : Out) (se : Bool) : lock o se = (o.n, o.err, se, true) := rfl

/-- the lock-protected wrappers (`zapcore.Lock`'s lockedWriteSyncer, BufferedWriteSyncer) call into the wrapped, not
    concurrency-safe WriteSyncer / bufio.Writer ONLY while holding their mutex — every call site of today's source
    (regenerated table Gen/Delegates; helpers that do not lock are guarded iff all their callers hold the lock) -/
theorem lock_delegate_calls_guarded : Gen.Delegates.rows.all (fun r => r.2.2.2.2.1) = true := by decide

/-- … and the table is not vacuous: both Write and Sync of each wrapper reach the wrapped object through such a site -/
theorem lock_delegate_surface :
    (["Write", "Sync"].all fun m => Gen.Delegates.rows.any fun r => r.1 == "lockedWriteSyncer" && r.2.1 == m && r.2.2.1 == "ws") = true ∧
    (Gen.Delegates.rows.any fun r => r.1 == "BufferedWriteSyncer" && r.2.2.1 == "WS" && r.2.2.2.1 == "Sync") = true ∧
    (Gen.Delegates.rows.any fun r => r.1 == "BufferedWriteSyncer" && r.2.2.1 == "writer" && r.2.2.2.1 == "Write") = true ∧
    (Gen.Delegates.rows.any fun r => r.1 == "BufferedWriteSyncer" && r.2.2.1 == "writer" && r.2.2.2.1 == "Flush") = true := by decide

/-- Lock makes writes mutually exclusive: under any schedule the sink holds whole writes in
    acquisition order whenever the mutex is free (instance of the C04 machine) -/
theorem lock_mutex (s : Merge.St) (sched : List Nat) (h : Merge.Inv s) (hf : (Merge.run s sched).lock = none) :
    (Merge.run s sched).sink = Merge.written (Merge.run s sched) :=
  Merge.sink_whole_lines s sched h hf

/-- every zap-provided writer reports len(p) with a nil error: never a short count without an error -/
theorem full_count (p : Bytes) : writerWrite p = (p.length, false) := rfl

/-- non-vacuity: the vector that the pre-repair loop got wrong -/
example : multiWrite [1, 2, 3, 4, 5] [⟨0, false⟩, ⟨5, false⟩] = (0, []) := by decide
example : multiWrite [1, 2, 3] [⟨3, true⟩, ⟨1, false⟩, ⟨2, true⟩] = (1, [0, 2]) := by decide

end ZapVerif.C13
