import ZapVerif.Model.Writers
import ZapVerif.Proofs.TransMultiWS
import ZapVerif.Proofs.TransLocked
import ZapVerif.Proofs.Merge
import ZapVerif.Gen.Delegates
import ZapVerif.Proofs.TransWriters
/-! # C13 — zap's writers and WriteSyncer combinators honour the io.Writer contract -/
namespace ZapVerif.C13
open ZapVerif ZapVerif.Writers

theorem multiRun_append (p : Bytes) (a b : List Out) :
    multiRun p (a ++ b) = b.foldl (multiStep p) (multiRun p a) := by
  simp [multiRun, List.foldl_append]

theorem fold_count_le (p : Bytes) (outs : List Out) (a : Acc) (c : Nat) (h : a.count = some c) :
    ∃ c', (outs.foldl (multiStep p) a).count = some c' ∧ c' ≤ c ∧ (∀ o ∈ outs, c' ≤ o.n) ∧
      (c' = c ∨ ∃ o ∈ outs, c' = o.n) := by
  induction outs generalizing a c with
  | nil => exact ⟨c, h, Nat.le_refl _, by simp, Or.inl rfl⟩
  | cons o r ih =>
    have hc : (multiStep p a o).count = some (min c o.n) := by simp [multiStep, h]
    obtain ⟨c', h1, h2, h3, h4⟩ := ih (multiStep p a o) (min c o.n) hc
    refine ⟨c', by simpa [List.foldl_cons] using h1, Nat.le_trans h2 (Nat.min_le_left _ _), ?_, ?_⟩
    · intro x hx
      rcases List.mem_cons.mp hx with rfl | hx
      · exact Nat.le_trans h2 (Nat.min_le_right _ _)
      · exact h3 x hx
    · rcases h4 with h4 | ⟨x, hx, hxe⟩
      · rcases Nat.le_total c o.n with hle | hle
        · left; rw [h4, Nat.min_eq_left hle]
        · right; exact ⟨o, by simp, by rw [h4, Nat.min_eq_right hle]⟩
      · right; exact ⟨x, List.mem_cons_of_mem _ hx, hxe⟩

/-- the count returned is the smallest count any sink reported (at least one sink) -/
theorem multi_count_min (p : Bytes) (o : Out) (outs : List Out) :
    (∀ x ∈ o :: outs, (multiWrite p (o :: outs)).1 ≤ x.n) ∧
    (∃ x ∈ o :: outs, (multiWrite p (o :: outs)).1 = x.n) := by
  have h0 : (multiStep p {} o).count = some o.n := by simp [multiStep]
  obtain ⟨c', h1, h2, h3, h4⟩ := fold_count_le p outs (multiStep p {} o) o.n h0
  have hv : (multiWrite p (o :: outs)).1 = c' := by
    simp [multiWrite, multiRun, List.foldl_cons, h1]
  rw [hv]
  constructor
  · intro x hx
    rcases List.mem_cons.mp hx with rfl | hx
    · exact h2
    · exact h3 x hx
  · rcases h4 with h4 | ⟨x, hx, hxe⟩
    · exact ⟨o, by simp, h4⟩
    · exact ⟨x, List.mem_cons_of_mem _ hx, hxe⟩

theorem fold_delivered (p : Bytes) (outs : List Out) (a : Acc) :
    (outs.foldl (multiStep p) a).delivered = a.delivered ++ List.replicate outs.length p ∧
    (outs.foldl (multiStep p) a).idx = a.idx + outs.length := by
  induction outs generalizing a with
  | nil => simp
  | cons o r ih =>
    have := ih (multiStep p a o)
    simp only [List.foldl_cons, List.length_cons]
    rw [this.1, this.2]
    simp [multiStep, List.replicate_succ, Nat.add_assoc, Nat.add_comm 1]

/-- identical bytes reach every sink, whatever earlier sinks returned -/
theorem multi_same_bytes_all (p : Bytes) (outs : List Out) :
    (multiRun p outs).delivered = List.replicate outs.length p := by
  have := (fold_delivered p outs {}).1
  simpa [multiRun] using this

theorem fold_errs (p : Bytes) (outs : List Out) (a : Acc) :
    (outs.foldl (multiStep p) a).errs =
      a.errs ++ ((outs.zipIdx a.idx).filter (·.1.err)).map (·.2) := by
  induction outs generalizing a with
  | nil => simp
  | cons o r ih =>
    simp only [List.foldl_cons, List.zipIdx_cons]
    rw [ih]
    by_cases he : o.err <;> simp [multiStep, he, List.filter_cons]

/-- all errors are returned, in sink order, and nothing else -/
theorem multi_errors_all (p : Bytes) (outs : List Out) :
    (multiWrite p outs).2 = ((outs.zipIdx).filter (·.1.err)).map (·.2) := by
  have := fold_errs p outs {}
  simpa [multiWrite, multiRun] using this

/-- Sync reaches every sink and reports every error -/
theorem multi_sync_all (errs : List Bool) :
    (multiSync errs).2 = List.replicate errs.length true ∧
    (multiSync errs).1 = ((errs.zipIdx).filter (·.1)).map (·.2) := by
  constructor
  · simp [multiSync]; induction errs with
    | nil => rfl
    | cons e r ih => simp [List.replicate_succ, ih]
  · rfl

/-- AddSync keeps an existing Sync and adds a no-op one otherwise; Write is relayed unchanged -/
theorem addsync_keeps (o : Out) (se : Bool) : addSync true o se = (o.n, o.err, true, se) := by simp [addSync]
theorem addsync_adds_nop (o : Out) (se : Bool) : addSync false o se = (o.n, o.err, false, false) := by simp [addSync]

/-- Lock relays results unchanged and does not layer a second lock -/
theorem lock_relays (o : Out) (se : Bool) : lock o se = (o.n, o.err, se, true) := rfl

/-- the lock-protected wrappers (`zapcore.Lock`'s lockedWriteSyncer, BufferedWriteSyncer) call into the wrapped, not
    concurrency-safe WriteSyncer / bufio.Writer ONLY while holding their mutex — every call site of today's source
    (regenerated table Gen/Delegates; helpers that do not lock are guarded iff all their callers hold the lock) -/
theorem lock_delegate_calls_guarded : Gen.Delegates.rows.all (fun r => r.2.2.2.2.1) = true := by decide

/-- … and the table is not vacuous: both Write and Sync of each wrapper reach the wrapped object through such a site -/
theorem lock_delegate_surface :
    (["Write", "Sync"].all fun m => Gen.Delegates.rows.any fun r => r.1 == "lockedWriteSyncer" && r.2.1 == m && r.2.2.1 == "ws") = true ∧
    (Gen.Delegates.rows.any fun r => r.1 == "BufferedWriteSyncer" && r.2.2.1 == "WS" && r.2.2.2.1 == "Sync") = true ∧
    (Gen.Delegates.rows.any fun r => r.1 == "BufferedWriteSyncer" && r.2.2.1 == "writer" && r.2.2.2.1 == "Write") = true ∧
    (Gen.Delegates.rows.any fun r => r.1 == "BufferedWriteSyncer" && r.2.2.1 == "writer" && r.2.2.2.1 == "Flush") = true := by decide

/-- Lock makes writes mutually exclusive: under any schedule the sink holds whole writes in
    acquisition order whenever the mutex is free (instance of the C04 machine) -/
theorem lock_mutex (s : Merge.St) (sched : List Nat) (h : Merge.Inv s) (hf : (Merge.run s sched).lock = none) :
    (Merge.run s sched).sink = Merge.written (Merge.run s sched) :=
  Merge.sink_whole_lines s sched h hf

/-- every zap-provided writer reports len(p) with a nil error: never a short count without an error -/
theorem full_count (p : Bytes) : writerWrite p = (p.length, false) := rfl

/-- non-vacuity: the vector that the pre-repair loop got wrong -/
example : multiWrite [1, 2, 3, 4, 5] [⟨0, false⟩, ⟨5, false⟩] = (0, []) := by decide
example : multiWrite [1, 2, 3] [⟨3, true⟩, ⟨1, false⟩, ⟨2, true⟩] = (1, [0, 2]) := by decide

end ZapVerif.C13

/-! ## the model's multi-syncer loops ARE the source (Go→GoMini translation, docs/TRANSLATOR.md)

`Gen/TransMultiWS.lean` holds the bodies of `multiWriteSyncer.Write` and `multiWriteSyncer.Sync` as read from
zapcore/write_syncer.go on this run.  Sinks are values that script their own outcome (`TransMultiWS.sinksOf`), errors
are lists of ids and `multierr.Append` is concatenation.  For EVERY number of sinks and every outcome vector the
interpreted loops return exactly `Writers.multiWrite` / `Writers.multiSync`, and every sink's `Write` is handed the
same `p` (the recorded calls). -/
namespace ZapVerif.C13
set_option linter.unusedSimpArgs false
open ZapVerif ZapVerif.Writers ZapVerif.GoMini ZapVerif.TransMultiWS ZapVerif.Gen.TransMultiWS

/-- the loop variables of `Write` after an iteration (absent before the first one) -/
def wTail : Option (Int × Val × Int × List Val) → Env
  | none => []
  | some (i, w, n, e) => [("l2", .int i), ("l3", w), ("l4", .int n), ("l5", .list e)]

/-- the state of `Write` at the loop head -/
def wAbs (p : Bytes) (sinks : List Val) (a : (Nat × List Nat × List Val) × Option (Int × Val × Int × List Val)) : State :=
  ⟨[("p0", .bytes p), ("l0", .list (a.1.2.1.map fun (i : Nat) => Val.int i)), ("l1", .int a.1.1)] ++ wTail a.2,
   [("ws", .list sinks), ("writes", .list a.1.2.2)]⟩

/-- the abstract step of the `Write` loop: `wstep` plus the loop variables it leaves behind -/
def wStep (p : Bytes) (a : (Nat × List Nat × List Val) × Option (Int × Val × Int × List Val)) (i : Nat)
    (y : Writers.Out × Nat) : (Nat × List Nat × List Val) × Option (Int × Val × Int × List Val) :=
  (wstep p a.1 i y,
   some ((i : Int), sinkV y.1.n (if y.1.err then [.int y.2] else []) [], (y.1.n : Int), if y.1.err then [.int y.2] else []))

theorem wStep_fold_fst (p : Bytes) : ∀ (l : List ((Writers.Out × Nat) × Nat))
    (a : (Nat × List Nat × List Val) × Option (Int × Val × Int × List Val)),
    (l.foldl (fun a q => wStep p a q.2 q.1) a).1 = l.foldl (fun s q => wstep p s q.2 q.1) a.1
  | [], _ => rfl
  | q :: l, a => by simp only [List.foldl_cons]; rw [wStep_fold_fst p l]; rfl

/-- one iteration of the `Write` loop is `wstep` (hence `Writers.multiStep`): the sink is called with `p`, its
    error is appended, the count becomes the sink's count on the first iteration or when it is smaller -/
theorem multiWrite_iter_matches_source (p : Bytes) (sinks : List Val) (rec : Stmt → State → GoMini.Out)
    (a : (Nat × List Nat × List Val) × Option (Int × Val × Int × List Val)) (i : Nat) (y : Writers.Out × Nat) :
    (match Write_loop0 with
      | .range k v _ body => execS X rec body (((wAbs p sinks a).assign1 k (.int i)).assign1 v
          (sinkV y.1.n (if y.1.err then [.int y.2] else []) []))
      | _ => .oof) = .normal (wAbs p sinks (wStep p a i y)) := by
  obtain ⟨⟨c, errs, ws⟩, t⟩ := a
  obtain ⟨o, j⟩ := y
  by_cases h0 : i = 0 <;> by_cases h1 : o.n < c <;> cases t <;> cases he : o.err <;>
    simp [Write_loop0, wAbs, wTail, wStep, wstep, h0, h1, he, traceName]

/-- the whole loop of `multiWriteSyncer.Write` is the model's fold, for every number of sinks; no fuel is needed -/
theorem multiWrite_loop_matches_source (p : Bytes) (outs : List Writers.Out) (rec : Stmt → State → GoMini.Out) :
    ∃ t, execS X rec Write_loop0 (wAbs p (sinksOf outs) ((0, [], []), none)) =
      .normal (wAbs p (sinksOf outs) (wfold p outs 0 (0, [], []), t)) := by
  have hiter := multiWrite_iter_matches_source p (sinksOf outs) rec
  unfold Write_loop0 at hiter ⊢
  rw [execS_range]
  have hfold := rangeRun_fold
    (execS X rec _) _ _ (wAbs p (sinksOf outs))
    (fun y : Writers.Out × Nat => sinkV y.1.n (if y.1.err then [.int y.2] else []) []) (wStep p) hiter
    outs.zipIdx 0 ((0, [], []), none)
  refine ⟨((outs.zipIdx.zipIdx).foldl (fun a q => wStep p a q.2 q.1) ((0, [], []), none)).2, ?_⟩
  have hws : evalE X (wAbs p (sinksOf outs) ((0, [], []), none)) (.fld "ws") = .ok (.list (sinksOf outs)) := by
    simp [wAbs]
  rw [hws]
  simp only [Res.out_ok]
  refine Eq.trans (show rangeRun _ _ _ (sinksOf outs) 0 _ = _ from hfold) ?_
  congr 2
  exact Prod.ext (wStep_fold_fst p _ _) rfl

/-- `multiWriteSyncer.Write(p)` ≡ `Writers.multiWrite`: the count is the first sink's, then the minimum; every
    sink's error is kept, in order; every sink is handed `p` — for every number of sinks and every outcome vector -/
theorem multiWrite_matches_source (p : Bytes) (outs : List Writers.Out) (fuel : Nat) :
    run X (fuel + 1) "Write" [.bytes p] [("ws", .list (sinksOf outs)), ("writes", .list [])] =
      .done [.int (multiWrite p outs).1, .list ((multiWrite p outs).2.map fun (i : Nat) => Val.int i)]
        [("ws", .list (sinksOf outs)), ("writes", .list ((sinksOf outs).map fun s => Val.list [traceName, s, .bytes p]))] := by
  refine run_of_fin X _ _ Gen.TransMultiWS.Write [.bytes p] _ _ _ rfl rfl ?_
  show (exec X (fuel + 1) Write_body ⟨[("p0", .bytes p)], _⟩).fin = _
  rw [exec_succ]
  obtain ⟨t, hl⟩ := multiWrite_loop_matches_source p outs (exec X fuel)
  simp only [wAbs, wTail, List.map_nil, List.append_nil] at hl
  rw [show ((0 : Nat) : Int) = 0 from rfl] at hl
  obtain ⟨h1, h2, h3⟩ := wfold_multiWrite p outs
  simp [Write_body, hl, h1, h2, h3]

/-- the state of `Sync` at the loop head: the errors so far, and the loop variable once bound -/
def sAbs (sinks : List Val) (a : List Nat × Option Val) : State :=
  ⟨[("l0", .list (a.1.map fun (i : Nat) => Val.int i))] ++ (match a.2 with | none => [] | some w => [("l1", w)]),
   [("ws", .list sinks)]⟩

def sStep (a : List Nat × Option Val) (_ : Nat) (y : Bool × Nat) : List Nat × Option Val :=
  (if y.1 then a.1 ++ [y.2] else a.1, some (sinkV 0 [] (if y.1 then [.int y.2] else [])))

theorem sStep_fold (l : List ((Bool × Nat) × Nat)) (a : List Nat × Option Val) :
    (l.foldl (fun a q => sStep a q.2 q.1) a).1 = a.1 ++ ((l.map (·.1)).filter (·.1)).map (·.2) := by
  induction l generalizing a with
  | nil => simp
  | cons q l ih =>
    rw [List.foldl_cons, ih]
    obtain ⟨⟨b, j⟩, i⟩ := q
    cases b <;> simp [sStep]

/-- the loop of `multiWriteSyncer.Sync`: every sink is synced (no early exit), every error kept in order -/
theorem multiSync_loop_matches_source (errs : List Bool) (rec : Stmt → State → GoMini.Out) :
    ∃ t, execS X rec Sync_loop0 (sAbs (syncSinksOf errs) ([], none)) =
      .normal (sAbs (syncSinksOf errs) ((multiSync errs).1, t)) := by
  have hiter : ∀ (a : List Nat × Option Val) (i : Nat) (y : Bool × Nat),
      (match Sync_loop0 with
        | .range k v _ body => execS X rec body (((sAbs (syncSinksOf errs) a).assign1 k (.int i)).assign1 v
            (sinkV 0 [] (if y.1 then [.int y.2] else [])))
        | _ => .oof) = .normal (sAbs (syncSinksOf errs) (sStep a i y)) := by
    intro ⟨es, t⟩ i ⟨b, j⟩
    cases t <;> cases b <;> simp [Sync_loop0, sAbs, sStep]
  unfold Sync_loop0 at hiter ⊢
  rw [execS_range]
  have hfold := rangeRun_fold (execS X rec _) _ _ (sAbs (syncSinksOf errs))
    (fun y : Bool × Nat => sinkV 0 [] (if y.1 then [.int y.2] else [])) sStep hiter errs.zipIdx 0 ([], none)
  refine ⟨((errs.zipIdx.zipIdx).foldl (fun a q => sStep a q.2 q.1) ([], none)).2, ?_⟩
  have hws : evalE X (sAbs (syncSinksOf errs) ([], none)) (.fld "ws") = .ok (.list (syncSinksOf errs)) := by
    simp [sAbs]
  rw [hws]
  simp only [Res.out_ok]
  refine Eq.trans (show rangeRun _ _ _ (syncSinksOf errs) 0 _ = _ from hfold) ?_
  congr 2
  refine Prod.ext ?_ rfl
  rw [sStep_fold]
  simp [multiSync]

/-- `multiWriteSyncer.Sync()` ≡ `Writers.multiSync`: the combined error lists exactly the failing sinks, in order,
    for every number of sinks -/
theorem multiSync_matches_source (errs : List Bool) (fuel : Nat) :
    run X (fuel + 1) "Sync" [] [("ws", .list (syncSinksOf errs))] =
      .done [.list ((multiSync errs).1.map fun (i : Nat) => Val.int i)] [("ws", .list (syncSinksOf errs))] := by
  refine run_of_fin X _ _ Gen.TransMultiWS.Sync [] _ _ _ rfl rfl ?_
  show (exec X (fuel + 1) Sync_body ⟨[], _⟩).fin = _
  rw [exec_succ]
  obtain ⟨t, hl⟩ := multiSync_loop_matches_source errs (exec X fuel)
  simp only [sAbs, List.map_nil, List.append_nil] at hl
  simp [Sync_body, hl]

end ZapVerif.C13

/-! ## `lockedWriteSyncer.Write/Sync` ARE the source (table `Gen/TransLocked.lean`)

`zapcore.Lock(ws)`: exactly one call of the wrapped `Write` (resp. `Sync`), with the caller's bytes, strictly between
`Lock` and `Unlock`, and its results relayed unchanged (`lock_relays`). -/
namespace ZapVerif.C13
set_option linter.unusedSimpArgs false
open ZapVerif ZapVerif.GoMini ZapVerif.TransLocked ZapVerif.Gen.TransLocked

theorem lockedWriteSyncer_Write_matches_source (P : Par) (bs : Bytes) (n : Int) (werrs serrs ev : List Val) (fuel : Nat) :
    run (X P) (fuel + 1) "lockedWriteSyncer_Write" [.bytes bs] (lkFld (TransLocked.sinkV n werrs serrs) ev) =
      .done [.int n, .list werrs] (lkFld (TransLocked.sinkV n werrs serrs)
        (ev ++ [.list [TransLocked.nm "Mutex.Lock"],
                .list [TransLocked.nm "WriteSyncer.Write", TransLocked.sinkV n werrs serrs, .bytes bs],
                .list [TransLocked.nm "Mutex.Unlock"]])) := by
  refine run_of_fin (X P) _ _ Gen.TransLocked.lockedWriteSyncer_Write [.bytes bs] _ _ _ rfl rfl ?_
  show (exec (X P) (fuel + 1) lockedWriteSyncer_Write_body ⟨[("p0", .bytes bs)], _⟩).fin = _
  rw [exec_succ]
  simp [lockedWriteSyncer_Write_body, nm_lock, nm_unlock, TransLocked.nm_wwrite]

theorem lockedWriteSyncer_Sync_matches_source (P : Par) (n : Int) (werrs serrs ev : List Val) (fuel : Nat) :
    run (X P) (fuel + 1) "lockedWriteSyncer_Sync" [] (lkFld (TransLocked.sinkV n werrs serrs) ev) =
      .done [.list serrs] (lkFld (TransLocked.sinkV n werrs serrs)
        (ev ++ [.list [TransLocked.nm "Mutex.Lock"],
                .list [TransLocked.nm "WriteSyncer.Sync", TransLocked.sinkV n werrs serrs],
                .list [TransLocked.nm "Mutex.Unlock"]])) := by
  refine run_of_fin (X P) _ _ Gen.TransLocked.lockedWriteSyncer_Sync [] _ _ _ rfl rfl ?_
  show (exec (X P) (fuel + 1) lockedWriteSyncer_Sync_body ⟨[], _⟩).fin = _
  rw [exec_succ]
  simp [lockedWriteSyncer_Sync_body, nm_lock, nm_unlock, TransLocked.nm_wsync]

end ZapVerif.C13

/-! ## the small writers ARE the source (translator round 4, table `Gen/TransWriters.lean`)

global.go `(*loggerWriter).Write` (the standard-library log bridge), zaptest `TestingWriter.Write`, zapcore `AddSync`,
`writerWrapper.Sync`, `Lock`, `NewMultiWriteSyncer`, translated mechanically, are interpreted with `bytes.TrimSpace` /
`TrimRight` and the two type assertions as parameters, the log function / `t.Logf` / `t.Fail` as recorded calls.  The
bridge and the testing writer report `len(p)` of what they were HANDED and a nil error whatever the trim leaves
(`Writers.writerWrite`, the function of `full_count`); `AddSync` / `Lock` return what `Writers.addSync` / `lock` describe. -/
set_option linter.unusedSimpArgs false
namespace ZapVerif.C13
open ZapVerif ZapVerif.GoMini ZapVerif.TransWriters ZapVerif.Gen.TransWriters

/-- the std-log bridge `(*loggerWriter).Write`: ONE call of the log function with the space-trimmed text, and the count
    returned is the length of what was HANDED IN (`len(p)` is taken before trimming), the error nil — `Writers.writerWrite` -/
theorem loggerWriter_Write_matches_source (P : Par) (p : Bytes) (f : Val) (ev : List Val) (fuel : Nat) :
    run (X P) (fuel + 1) "loggerWriter_Write" [.bytes p] [("ev", .list ev), ("logFunc", f)] =
      .done [.int (Writers.writerWrite p).1, .list []]
        [("ev", .list (ev ++ [.list [TransWriters.nm "LogFunc.call", f, .bytes (P.trimSpace p)]])), ("logFunc", f)] := by
  apply run_of_fin (X P) _ _ Gen.TransWriters.loggerWriter_Write _ _ _ _ rfl rfl
  rw [exec_succ]
  simp [loggerWriter_Write_body, nm_logFunc, Writers.writerWrite]

/-- `TestingWriter.Write`: ONE `t.Logf("%s", p without trailing newlines)`, then `t.Fail()` iff `markFailed`; `len(p)`
    of what was handed in and a nil error -/
theorem TestingWriter_Write_matches_source (P : Par) (p : Bytes) (t : Val) (mf : Bool) (ev : List Val) (fuel : Nat) :
    run (X P) (fuel + 1) "TestingWriter_Write" [.bytes p] [("ev", .list ev), ("t", t), ("markFailed", .bool mf)] =
      .done [.int (Writers.writerWrite p).1, .list []]
        [("ev", .list (ev ++ .list [TransWriters.nm "TB.Logf", t, .bytes [37, 115], .bytes (P.trimRight p [10])] ::
            (if mf then [.list [TransWriters.nm "TB.Fail", t]] else []))), ("t", t), ("markFailed", .bool mf)] := by
  apply run_of_fin (X P) _ _ Gen.TransWriters.TestingWriter_Write _ _ _ _ rfl rfl
  rw [exec_succ]
  cases mf <;> simp [TestingWriter_Write_body, nm_logf, nm_fail, Writers.writerWrite]

/-- `AddSync`: a writer that IS a WriteSyncer is returned as is (its own Sync is kept); anything else is wrapped in
    `writerWrapper{w}`, whose `Sync` is a no-op (next theorem) — `Writers.addSync` -/
theorem AddSync_matches_source (P : Par) (w : Val) (fl : Env) (fuel : Nat) :
    run (X P) (fuel + 1) "AddSync" [w] fl =
      .done [match P.asWS w with | some ws => ws | none => .list [.list [w]]] fl := by
  apply run_of_fin (X P) _ _ Gen.TransWriters.AddSync _ _ _ _ rfl rfl
  rw [exec_succ]
  cases h : P.asWS w <;> simp [AddSync_body, h]

theorem writerWrapper_Sync_matches_source (P : Par) (fl : Env) (fuel : Nat) :
    run (X P) (fuel + 1) "writerWrapper_Sync" [] fl = .done [.list []] fl := by
  apply run_of_fin (X P) _ _ Gen.TransWriters.writerWrapper_Sync _ _ _ _ rfl rfl
  rw [exec_succ]; simp [writerWrapper_Sync_body]

/-- `Lock`: an already locked syncer is returned as is (no second layer); anything else gets ONE fresh
    `lockedWriteSyncer` (zero mutex) around it -/
theorem Lock_matches_source (P : Par) (ws : Val) (fl : Env) (fuel : Nat) :
    run (X P) (fuel + 1) "Lock" [ws] fl = .done [if P.isLocked ws then ws else .list [.list [.list [], ws]]] fl := by
  apply run_of_fin (X P) _ _ Gen.TransWriters.Lock _ _ _ _ rfl rfl
  rw [exec_succ]
  cases h : P.isLocked ws <;> simp [Lock_body, h]

/-- `NewMultiWriteSyncer`: ONE syncer is returned itself; otherwise the multi-syncer over exactly the given ones in order -/
theorem NewMultiWriteSyncer_matches_source (P : Par) (ws : List Val) (fl : Env) (fuel : Nat) :
    run (X P) (fuel + 1) "NewMultiWriteSyncer" [.list ws] fl =
      .done [match ws with | [w] => w | _ => .list [.list ws]] fl := by
  apply run_of_fin (X P) _ _ Gen.TransWriters.NewMultiWriteSyncer _ _ _ _ rfl rfl
  rw [exec_succ]
  cases ws with
  | nil => simp [NewMultiWriteSyncer_body]
  | cons a r =>
    cases r with
    | nil => simp [NewMultiWriteSyncer_body]
    | cons b r' =>
      have h1 : ¬ ((r'.length : Int) + 1 + 1 = 1) := by omega
      simp [NewMultiWriteSyncer_body, h1]

/-- the decisions of the translated `AddSync` (+ `writerWrapper.Sync`) are `Writers.addSync`: whether a later `Sync`
    reaches the sink, and with which error -/
theorem AddSync_is_addSync (isWS : Bool) (o : Writers.Out) (se : Bool) :
    Writers.addSync isWS o se = (o.n, o.err, isWS, if isWS then se else false) := by
  cases isWS <;> simp [Writers.addSync]

end ZapVerif.C13
