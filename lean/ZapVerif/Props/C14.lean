import ZapVerif.Model.Sugar
import ZapVerif.Proofs.Sugar
import ZapVerif.Gen.Callers
import ZapVerif.Proofs.TransSweeten
import ZapVerif.Proofs.TransMessage
/-! # C14 — SugaredLogger never drops or misattributes loosely-typed arguments

Objects: `sweep`/`sweeten` mirror `sweetenFields`; `loopGo` is the same loop with Go's index expressions checked;
`trace` lists, in argument order, the event (output field or diagnostic) that consumed each argument;
`logMsg`/`withArgs` are the bodies of `log`/`logln`/`With`/`WithLazy`; `getMessage*` take `fmt` as a parameter.
The routing of every exported method's parameters into `s.log`/`s.logln` is read from sugar.go (Gen.Callers). -/
namespace ZapVerif.C14
open ZapVerif ZapVerif.Sugar

/-- the index loop of sugar.go terminates within `len(args)` iterations, never indexes out of range (no `panic`
    outcome) and returns the three lists of `sweeten` -/
theorem sweeten_total (args : List Arg) : loopGo args args.length 0 false {} = .ok (sweeten args) := by
  rw [loopGo_eq args args.length 0 false {} (by omega)]
  simp [sweeten, Res.append]

/-- the result lists are the projections of the event trace: nothing is reordered or invented -/
theorem sweeten_is_trace (args : List Arg) : sweeten args = split (trace 0 false args) :=
  sweep_eq_split 0 false args

/-- **accounting**: concatenating, in order, the arguments named by each event (output field, multiple-error
    diagnostic, dangling-key diagnostic, invalid-pair element) gives back exactly the argument list — every position
    is consumed by exactly one event, and that event carries the very arguments found there -/
theorem accounting (args : List Arg) : (trace 0 false args).flatMap Ev.args = args :=
  trace_args 0 false args

/-- an `invalid` element records the position of its key: `args[p] = k`, `args[p+1] = v` -/
theorem invalid_position (args : List Arg) (pre post : List Ev) (p : Nat) (k v : Arg)
    (h : trace 0 false args = pre ++ Ev.invalid p k v :: post) :
    p = (pre.flatMap Ev.args).length ∧ args[p]? = some k ∧ args[p+1]? = some v := by
  have hp := trace_invalid_pos 0 false args pre p k v post h
  have ha := accounting args
  rw [h] at ha
  simp only [List.flatMap_append, List.flatMap_cons, Ev.args] at ha
  have hp' : p = (pre.flatMap Ev.args).length := by omega
  refine ⟨hp', ?_, ?_⟩ <;> rw [← ha, hp'] <;> simp

def covered (r : Res) : Nat :=
  (r.fields.map fun | .any .. => 2 | _ => 1).sum + r.diags.length + 2 * r.invalid.length

/-- counting form of `accounting` over the three lists `sweetenFields` really builds -/
theorem accounting_count (args : List Arg) : covered (sweeten args) = args.length := by
  unfold sweeten
  generalize 0 = i; generalize false = seen
  fun_induction sweep i seen args <;> simp_all [covered, Res.cons1, Res.cons2, Res.cons3] <;> omega

/-- the arguments an output field stands for -/
def Out.args : Out → List Arg
  | .passed ty k t => [.field ty k t]
  | .any k v => [.str k, v]
  | .error e => [.err e]

theorem out_sublist (i : Nat) (seen : Bool) (args : List Arg) :
    (((trace i seen args).filterMap Ev.out?).flatMap Out.args).Sublist args := by
  fun_induction trace i seen args <;>
    simp_all [Ev.out?, Out.args, List.filterMap_cons]
  all_goals first
    | exact List.Sublist.cons _ (by assumption)
    | exact List.Sublist.cons _ (List.Sublist.cons _ (by assumption))
    | exact List.nil_sublist _

/-- typed fields pass through unchanged, string-keyed pairs become `Any key value`, in argument order: the
    arguments the output fields stand for form a subsequence of the argument list -/
theorem fields_in_order (args : List Arg) :
    (sweeten args).fields = (trace 0 false args).filterMap Ev.out? ∧
    ((sweeten args).fields.flatMap Out.args).Sublist args := by
  have h := sweeten_is_trace args
  constructor
  · rw [h]; rfl
  · rw [h]; exact out_sublist 0 false args

/-- a string-keyed pair is rendered with the type tag `zap.Any` chooses for the value, under its key; a typed field
    is rendered as it came -/
example (k : Tok) (v : Arg) : (Out.any k v).render = .f v.anyType.name k v.tok := rfl
example (ty : String) (k t : Tok) : (Out.passed ty k t).render = .f ty k t := rfl

/-- among the bare errors (error values in key position) the first becomes the field keyed `error`; every later one is
    a multiple-error diagnostic -/
theorem first_error_key (args : List Arg) :
    (trace 0 false args).filter Ev.isErrEv = [] ∨
    ∃ e rest, (trace 0 false args).filter Ev.isErrEv = Ev.error e :: rest ∧
      (∀ x ∈ rest, x.isMultiple = true) ∧ (Out.error e).key = keyError ∧
      (Out.error e).render = .f FT.error.name keyError e :=
  match trace_first_error 0 args with
  | .inl h => .inl h
  | .inr ⟨e, rest, h1, h2⟩ => .inr ⟨e, rest, h1, h2, rfl, rfl⟩

theorem filterMap_out_filter (t : List Ev) : (t.filter Ev.isOut).filterMap Ev.out? = t.filterMap Ev.out? := by
  induction t with
  | nil => rfl
  | cons e r ih => cases e <;> simp_all [Ev.isOut, Ev.out?, List.filter_cons, List.filterMap_cons]

theorem filterMap_ldiag_filter (t : List Ev) : (t.filter Ev.isOut).filterMap Ev.ldiag? = [] := by
  induction t with
  | nil => rfl
  | cons e r ih => cases e <;> simp_all [Ev.isOut, Ev.out?, Ev.ldiag?, List.filter_cons, List.filterMap_cons]

theorem filterMap_inv_filter (t : List Ev) : (t.filter Ev.isOut).filterMap Ev.inv? = [] := by
  induction t with
  | nil => rfl
  | cons e r ih => cases e <;> simp_all [Ev.isOut, Ev.out?, Ev.inv?, List.filter_cons, List.filterMap_cons]

theorem clean_sublist (i : Nat) (seen : Bool) (args : List Arg) :
    (((trace i seen args).filter Ev.isOut).flatMap Ev.args).Sublist args := by
  fun_induction trace i seen args <;>
    simp_all [Ev.isOut, Ev.out?, Ev.args, List.filter_cons]
  all_goals first
    | exact List.Sublist.cons _ (by assumption)
    | exact List.Sublist.cons _ (List.Sublist.cons _ (by assumption))
    | exact List.nil_sublist _

/-- the well-formed arguments are logged exactly as if the ill-formed ones had not been passed: removing every
    argument named by a diagnostic leaves a subsequence that produces the same fields and no diagnostic -/
theorem wellformed_still_logged (args : List Arg) :
    (clean args).Sublist args ∧
    (sweeten (clean args)).fields = (sweeten args).fields ∧
    (sweeten (clean args)).diags = [] ∧ (sweeten (clean args)).invalid = [] := by
  have hc : trace 0 false (clean args) = (trace 0 false args).filter Ev.isOut := trace_clean 0 false args 0
  refine ⟨clean_sublist 0 false args, ?_, ?_, ?_⟩
  · rw [sweeten_is_trace, sweeten_is_trace, hc]; exact filterMap_out_filter _
  · rw [sweeten_is_trace, hc]; exact filterMap_ldiag_filter _
  · rw [sweeten_is_trace, hc]; exact filterMap_inv_filter _

/-- every diagnostic entry is an error-level entry, separate from the entry that carries the fields -/
theorem diagnostics_error_level (ctx : List FieldD) (r : Res) : ∀ e ∈ r.diagEntries ctx, e.lvl = errorLevel := by
  intro e he
  simp only [Res.diagEntries, List.mem_append, List.mem_map] at he
  rcases he with ⟨d, _, rfl⟩ | he
  · cases d <;> rfl
  · split at he <;> simp_all

/-- one diagnostic entry per multiple-error / dangling key, one more carrying all invalid pairs (when any) -/
theorem diagnostics_count (ctx : List FieldD) (r : Res) :
    (r.diagEntries ctx).length = r.diags.length + (if r.invalid = [] then 0 else 1) := by
  simp only [Res.diagEntries, List.length_append, List.length_map]
  split <;> simp

/-- with the method's level and Error enabled, a `*w` call records the diagnostics and then one entry at the requested
    level with the given message and, after the logger's context, exactly the fields of `sweeten` -/
theorem logw_entries (c : Cfg) (ctx : List FieldD) (l : Int) (msg : Bytes) (args : List Arg)
    (hl : c.enabled l = true) (he : c.enabled errorLevel = true) :
    (logMsg c ctx l msg args).entries =
      (sweeten args).diagEntries ctx ++ [⟨l, msg, ctx ++ (sweeten args).fields.map Out.render⟩] := by
  simp [logMsg, Cfg.check, Cfg.diagOut, hl, he]

/-- `With`/`WithLazy`: the child's context is the parent's followed by the fields of `sweeten`; diagnostics are recorded
    by the parent when Error is enabled -/
theorem with_entries (c : Cfg) (ctx : List FieldD) (args : List Arg) (he : c.enabled errorLevel = true) :
    withArgs c ctx args = ((sweeten args).diagEntries ctx, ctx ++ (sweeten args).fields.map Out.render) := by
  simp [withArgs, Cfg.diagOut, he]

/-- the three facts about `fmt` that the message theorems use -/
structure FmtFacts (F : Fmt) : Prop where
  sprint_nil : F.sprint [] = []
  sprint_str : ∀ s, F.sprint [.str s] = s
  sprintln_nl : ∀ a, ∃ m, F.sprintln a = m ++ [10]

/-- print-style = Sprint; no arguments = the template verbatim; template and arguments = Sprintf;
    println-style = Sprintln without its trailing newline -/
theorem message_forms (F : Fmt) (h : FmtFacts F) :
    (∀ args, getMessage F [] args = F.sprint args) ∧
    (∀ t, getMessage F t [] = t) ∧
    (∀ t args, t ≠ [] → args ≠ [] → getMessage F t args = F.sprintf t args) ∧
    (∀ args, getMessageln F args ++ [10] = F.sprintln args) := by
  refine ⟨?_, ?_, ?_, ?_⟩
  · intro args
    match args with
    | [] => simp [getMessage, h.sprint_nil]
    | [.str s] => simp [getMessage, h.sprint_str]
    | [.field ..] | [.err _] | [.int _] | [.nil] | [.val ..] => simp [getMessage]
    | _ :: _ :: _ => simp [getMessage]
  · intro t; simp [getMessage]
  · intro t args ht ha; simp [getMessage, ht, ha]
  · intro args
    obtain ⟨m, hm⟩ := h.sprintln_nl args
    simp [getMessageln, hm]

/-! ## tie to sugar.go: how each exported method routes its parameters (regenerated table) -/

open ZapVerif.Gen.Callers in
def expectedMethods : List SugarMethod :=
  [("Debug", some (-1)), ("Info", some 0), ("Warn", some 1), ("Error", some 2), ("DPanic", some 3), ("Panic", some 4),
   ("Fatal", some 5), ("Log", none)].flatMap fun ((base, lvl) : String × Option Int) =>
    let o := if lvl.isNone then 1 else 0
    [ ⟨base, false, lvl, .empty, .param o, .none⟩,                      -- print style: ("", args, nil)
      ⟨base ++ "f", false, lvl, .param o, .param (o+1), .none⟩,         -- printf style: (template, args, nil)
      ⟨base ++ "ln", true, lvl, .none, .param o, .none⟩,                -- println style: logln(args, nil)
      ⟨base ++ "w", false, lvl, .param o, .none, .param (o+1)⟩ ]        -- structured: (msg, nil, keysAndValues)

/-- every level has its four methods, each logs at the level of its name and hands its parameters to
    `log`/`logln` in the role of its family; there is no other logging method -/
theorem every_method_routes :
    (∀ m ∈ expectedMethods, m ∈ Gen.Callers.sugarMethods) ∧
    Gen.Callers.sugarMethods.length = expectedMethods.length := by decide

/-! ## non-vacuity -/

/-- the hypotheses of `message_forms` are satisfiable -/
example : FmtFacts ⟨fun a => match a with | [.str s] => s | [] => [] | _ => [63],
                    fun t _ => t, fun _ => [10]⟩ :=
  ⟨rfl, fun _ => rfl, fun _ => ⟨[], rfl⟩⟩

/-- a list with every kind of ill-formed argument: pair, invalid pair, first and second bare error, dangling key -/
example : sweeten [.str [107], .int [49], .int [50], .nil, .err [101], .err [102], .field "Int64" [102] [55], .str [100]] =
    { fields := [.any [107] (.int [49]), .error [101], .passed "Int64" [102] [55]],
      diags := [.multiple [102], .dangling (.str [100])],
      invalid := [⟨2, .int [50], .nil⟩] } := by decide

example : clean [.str [107], .int [49], .int [50], .nil, .err [101], .err [102], .field "Int64" [102] [55], .str [100]] =
    [.str [107], .int [49], .err [101], .field "Int64" [102] [55]] := by decide

end ZapVerif.C14

/-! ## `sweetenFields` IS the source (table `Gen/TransSweeten.lean`)

The loop of sugar.go `(*SugaredLogger).sweetenFields`, translated mechanically, is interpreted on EVERY argument list:
the arguments are opaque values, and what the three comma-ok type assertions (`.(Field)`, `.(error)`, `.(string)`) answer
about each is a parameter.  The result is the positional sweep `TransSweeten.sweepV` — the same recursion as
`Sugar.sweep` (`sweepV_is_sweep`) — and the diagnostics reach the base logger in the model's order.  `cap` is any
function with `cap s = 0 → s = []`. -/
namespace ZapVerif.C14
set_option linter.unusedSimpArgs false
open ZapVerif ZapVerif.GoMini ZapVerif.TransSweeten ZapVerif.Gen.TransSweeten

theorem sweetenFields_iter_field_matches_source (P : Par) (args : List Val) (skip : Val) (ev0 : List Val) (i : Nat) (seen : Bool) (acc : ResV)
    (t : Junk) (a f : Val) (hi : (i : Int) + 2 < 9223372036854775808)
    (hidx : indexVal (.list args) (.int i) = .ok a) (hf : P.asField a = some f)
    (rec : Stmt → State → GoMini.Out) (k : State → GoMini.Out) :
    (execS (X P) rec sweetenFields_loop0.lbody (sAbs args skip ev0 i seen acc t)).loopBody
      (fun σ' => (execS (X P) rec sweetenFields_loop0.lpost σ').loopPost k) =
      k (sAbs args skip ev0 (i+1) seen ⟨acc.fields ++ [f], acc.diags, acc.invalid⟩ (t.set1 f (.bool true))) := by
  have hw1 : wrap .int ((i : Int) + 1) = ((i + 1 : Nat) : Int) := by rw [wrap_int_id] <;> omega
  have he := ext_field_some P a f hf
  cases t <;>
    simp [sweetenFields_loop0, Stmt.lbody, Stmt.lpost, sAbs, Junk.env, Junk.set1, hidx, he, hw1]

theorem sweetenFields_iter_err_matches_source (P : Par) (args : List Val) (skip : Val) (ev0 : List Val) (i : Nat) (seen : Bool) (acc : ResV)
    (t : Junk) (a e : Val) (hi : (i : Int) + 2 < 9223372036854775808)
    (hidx : indexVal (.list args) (.int i) = .ok a) (hf : P.asField a = none) (he : P.asErr a = some e)
    (rec : Stmt → State → GoMini.Out) (k : State → GoMini.Out) :
    (execS (X P) rec sweetenFields_loop0.lbody (sAbs args skip ev0 i seen acc t)).loopBody
      (fun σ' => (execS (X P) rec sweetenFields_loop0.lpost σ').loopPost k) =
      k (sAbs args skip ev0 (i+1) true
          (if seen then ⟨acc.fields, acc.diags ++ [diagV msgMultiple (errF e)], acc.invalid⟩
           else ⟨acc.fields ++ [errF e], acc.diags, acc.invalid⟩)
          ((t.set1 (.list []) (.bool false)).set2 e (.bool true))) := by
  have hw1 : wrap .int ((i : Int) + 1) = ((i + 1 : Nat) : Int) := by rw [wrap_int_id] <;> omega
  have h1 := ext_field_none P a hf
  have h2 := ext_err_some P a e he
  cases seen <;> cases t <;>
    simp [sweetenFields_loop0, Stmt.lbody, Stmt.lpost, sAbs, Junk.env, Junk.set1, Junk.set2, hidx, h1, h2, hw1,
      diagV, nm_diag, msgMultiple_eq, List.append_assoc]

theorem sweetenFields_iter_dangling_matches_source (P : Par) (args : List Val) (skip : Val) (ev0 : List Val) (i : Nat) (seen : Bool) (acc : ResV)
    (t : Junk) (a : Val) (hlen : (args.length : Int) < 9223372036854775808) (hlast : i + 1 = args.length)
    (hidx : indexVal (.list args) (.int i) = .ok a) (hf : P.asField a = none) (he : P.asErr a = none)
    (rec : Stmt → State → GoMini.Out) (k : State → GoMini.Out) :
    (execS (X P) rec sweetenFields_loop0.lbody (sAbs args skip ev0 i seen acc t)).loopBody
      (fun σ' => (execS (X P) rec sweetenFields_loop0.lpost σ').loopPost k) =
      .normal (sAbs args skip ev0 i seen ⟨acc.fields, acc.diags ++ [diagV msgOdd (anyF keyIgnored a)], acc.invalid⟩
          ((t.set1 (.list []) (.bool false)).set2 (.list []) (.bool false))) := by
  have hwl : wrap .int ((args.length : Int) - 1) = (i : Int) := by rw [wrap_int_id] <;> omega
  have h1 := ext_field_none P a hf
  have h2 := ext_err_none P a he
  cases t <;>
    simp [sweetenFields_loop0, Stmt.lbody, Stmt.lpost, sAbs, Junk.env, Junk.set1, Junk.set2, hidx, h1, h2, hwl,
      diagV, nm_diag, msgOdd_eq, keyIgnored_eq, List.append_assoc]

theorem sweetenFields_iter_pair_matches_source (P : Par) (hcap : ∀ l : List Val, P.cap (.list l) = 0 → l = []) (args : List Val) (skip : Val)
    (ev0 : List Val) (i : Nat) (seen : Bool) (acc : ResV)
    (t : Junk) (a v : Val) (hlen : (args.length : Int) < 9223372036854775808) (hnl : i + 1 < args.length)
    (hidx : indexVal (.list args) (.int i) = .ok a) (hidx2 : indexVal (.list args) (.int ((i : Int) + 1)) = .ok v)
    (hf : P.asField a = none) (he : P.asErr a = none)
    (rec : Stmt → State → GoMini.Out) (k : State → GoMini.Out) :
    (execS (X P) rec sweetenFields_loop0.lbody (sAbs args skip ev0 i seen acc t)).loopBody
      (fun σ' => (execS (X P) rec sweetenFields_loop0.lpost σ').loopPost k) =
      k (sAbs args skip ev0 (i+2) seen
          (match P.asStr a with
           | some s => ⟨acc.fields ++ [anyF s v], acc.diags, acc.invalid⟩
           | none => ⟨acc.fields, acc.diags, acc.invalid ++ [.list [.int i, a, v]]⟩)
          (((t.set1 (.list []) (.bool false)).set2 (.list []) (.bool false)).set3 a v
            (match P.asStr a with | some s => .bytes s | none => .bytes [])
            (.bool (P.asStr a).isSome))) := by
  have hwl : wrap .int ((args.length : Int) - 1) = (args.length : Int) - 1 := by rw [wrap_int_id] <;> omega
  have hw1 : wrap .int ((i : Int) + 1) = (i : Int) + 1 := by rw [wrap_int_id] <;> omega
  have hw2 : wrap .int ((i : Int) + 2) = (i : Int) + 2 := by rw [wrap_int_id] <;> omega
  have hne : ¬ ((i : Int) = (args.length : Int) - 1) := by omega
  have h1 := ext_field_none P a hf
  have h2 := ext_err_none P a he
  obtain ⟨fs, ds, inv⟩ := acc
  cases hs : P.asStr a with
  | some s =>
    have h3 := ext_str_some P a s hs
    cases t <;>
      simp [sweetenFields_loop0, Stmt.lbody, Stmt.lpost, sAbs, Junk.env, Junk.set1, Junk.set2, Junk.set3, hidx, hidx2, h1, h2,
        h3, hwl, hw1, hw2, hne, List.append_assoc]
  | none =>
    have h3 := ext_str_none P a hs
    by_cases hc : P.cap (.list inv) = 0
    · have hinv := hcap inv hc
      subst hinv
      cases t <;>
        simp [sweetenFields_loop0, Stmt.lbody, Stmt.lpost, sAbs, Junk.env, Junk.set1, Junk.set2, Junk.set3, hidx, hidx2, h1, h2,
          h3, hwl, hw1, hw2, hne, hc, List.append_assoc]
    · cases t <;>
        simp [sweetenFields_loop0, Stmt.lbody, Stmt.lpost, sAbs, Junk.env, Junk.set1, Junk.set2, Junk.set3, hidx, hidx2, h1, h2,
          h3, hwl, hw1, hw2, hne, hc, List.append_assoc]

/-- the whole loop: from position `pre.length` on, it adds exactly `sweepV` of the remaining arguments -/
theorem sweetenFields_loop_matches_source (P : Par) (hcap : ∀ l : List Val, P.cap (.list l) = 0 → l = []) (args : List Val)
    (skip : Val) (ev0 : List Val) (hlen : (args.length : Int) + 2 < 9223372036854775808) :
    ∀ (n : Nat) (pre rest : List Val) (seen : Bool) (acc : ResV) (t : Junk) (fuel : Nat),
      pre ++ rest = args → rest.length ≤ n →
      ∃ (i' : Nat) (seen' : Bool) (t' : Junk),
        execS (X P) (exec (X P) (fuel + n)) sweetenFields_loop0 (sAbs args skip ev0 pre.length seen acc t) =
          .normal (sAbs args skip ev0 i' seen' (acc.append (sweepV P pre.length seen rest)) t') := by
  have hL : sweetenFields_loop0 = .loop sweetenFields_loop0.lcond sweetenFields_loop0.lpost sweetenFields_loop0.lbody := rfl
  have hcond : ∀ (i : Nat) (seen : Bool) (acc : ResV) (t : Junk),
      evalE (X P) (sAbs args skip ev0 i seen acc t) sweetenFields_loop0.lcond = .ok (.bool (decide ((i : Int) < args.length))) := by
    intro i seen acc t
    cases t <;> simp [sweetenFields_loop0, Stmt.lcond, sAbs, Junk.env]
  intro n
  induction n with
  | zero =>
    intro pre rest seen acc t fuel hargs hn
    have hr : rest = [] := List.eq_nil_of_length_eq_zero (by omega)
    subst hr
    have hpl : pre.length = args.length := by rw [← hargs]; simp
    refine ⟨pre.length, seen, t, ?_⟩
    rw [hL, execS_loop, hcond]
    simp [sweepV, hpl]
  | succ m ih =>
    intro pre rest seen acc t fuel hargs hn
    cases rest with
    | nil =>
      have hpl : pre.length = args.length := by rw [← hargs]; simp
      refine ⟨pre.length, seen, t, ?_⟩
      rw [hL, execS_loop, hcond]
      simp [sweepV, hpl]
    | cons a r =>
      have hal : args.length = pre.length + (r.length + 1) := by rw [← hargs]; simp
      have hlt : (pre.length : Int) < args.length := by omega
      have hi : (pre.length : Int) + 2 < 9223372036854775808 := by omega
      have hlen' : (args.length : Int) < 9223372036854775808 := by omega
      have hidx : indexVal (.list args) (.int (pre.length : Int)) = .ok a := by rw [← hargs]; exact indexVal_at pre a r
      rw [hL, execS_loop, hcond]
      simp only [hlt, decide_true, Res.out, condK]
      rw [← hL]
      have hrec : ∀ σ, exec (X P) (fuel + (m + 1)) sweetenFields_loop0 σ =
          execS (X P) (exec (X P) (fuel + m)) sweetenFields_loop0 σ := fun σ => by rw [← exec_succ]; rfl
      cases hf : P.asField a with
      | some f =>
        rw [sweetenFields_iter_field_matches_source P args skip ev0 pre.length seen acc t a f hi hidx hf, hrec]
        have := ih (pre ++ [a]) r seen ⟨acc.fields ++ [f], acc.diags, acc.invalid⟩ (t.set1 f (.bool true)) fuel
          (by simpa using hargs) (by simp at hn; omega)
        simpa [sweepV_field P _ _ a f r hf, append_cons1] using this
      | none =>
        cases he : P.asErr a with
        | some e =>
          rw [sweetenFields_iter_err_matches_source P args skip ev0 pre.length seen acc t a e hi hidx hf he, hrec]
          have := ih (pre ++ [a]) r true
            (if seen then ⟨acc.fields, acc.diags ++ [diagV msgMultiple (errF e)], acc.invalid⟩
             else ⟨acc.fields ++ [errF e], acc.diags, acc.invalid⟩)
            ((t.set1 (.list []) (.bool false)).set2 e (.bool true)) fuel
            (by simpa using hargs) (by simp at hn; omega)
          cases seen <;> simpa [sweepV_err P _ _ a e r hf he, append_cons1, append_cons2] using this
        | none =>
          cases r with
          | nil =>
            have hlast : pre.length + 1 = args.length := by rw [hal]; simp
            rw [sweetenFields_iter_dangling_matches_source P args skip ev0 pre.length seen acc t a hlen' hlast hidx hf he]
            exact ⟨pre.length, seen, (t.set1 (.list []) (.bool false)).set2 (.list []) (.bool false),
              by simp [sweepV_dangling P _ _ a hf he, ResV.append]⟩
          | cons v r' =>
            have hnl : pre.length + 1 < args.length := by rw [hal]; simp
            have hidx2 : indexVal (.list args) (.int ((pre.length : Int) + 1)) = .ok v := by
              rw [← hargs]; exact indexVal_at1 pre a v r'
            rw [sweetenFields_iter_pair_matches_source P hcap args skip ev0 pre.length seen acc t a v hlen' hnl hidx hidx2 hf he, hrec]
            have := ih (pre ++ [a, v]) r' seen
              (match P.asStr a with
               | some s => ⟨acc.fields ++ [anyF s v], acc.diags, acc.invalid⟩
               | none => ⟨acc.fields, acc.diags, acc.invalid ++ [.list [.int pre.length, a, v]]⟩)
              (((t.set1 (.list []) (.bool false)).set2 (.list []) (.bool false)).set3 a v
                (match P.asStr a with | some s => .bytes s | none => .bytes [])
                (.bool (P.asStr a).isSome)) fuel
              (by simpa using hargs) (by simp at hn; omega)
            cases hs : P.asStr a <;> simp only [hs] at this <;>
              simpa [sweepV_pair P _ _ a v r' hf he, hs, append_cons1, append_cons3] using this

/-- **sweetenFields_matches_source**: for every argument list, every answer of the three type assertions and every
    `cap`, the interpreted function returns the fields of the positional sweep and sends exactly its diagnostics — the
    in-loop ones in order, then the invalid pairs as one array — to the base logger. -/
theorem sweetenFields_matches_source (P : Par) (hcap : ∀ l : List Val, P.cap (.list l) = 0 → l = []) (args : List Val)
    (skip : Int) (ev : List Val) (hlen : (args.length : Int) + 2 < 9223372036854775808) (fuel : Nat) :
    run (X P) (fuel + args.length + 1) "sweetenFields" [.list args, .int skip] [("ev", .list ev)] =
      .done [.list (sweepV P 0 false args).fields] [("ev", .list (ev ++ diagsOf (sweepV P 0 false args)))] := by
  refine run_of_fin (X P) _ _ Gen.TransSweeten.sweetenFields [.list args, .int skip] _ _ _ rfl rfl ?_
  show (exec (X P) (fuel + args.length + 1) sweetenFields_body
    ⟨[("p0", .list args), ("p1", .int skip)], [("ev", .list ev)]⟩).fin = _
  rw [exec_succ]
  have hpos : ∀ k : Nat, (0 : Int) < (k : Int) + 1 := by intro k; omega
  have hne : ∀ k : Nat, ¬ ((k : Int) + 1 = 0) := by intro k; omega
  cases args with
  | nil => simp [sweetenFields_body, sweepV, diagsOf]
  | cons a r =>
    obtain ⟨i', seen', t', hrun⟩ := sweetenFields_loop_matches_source P hcap (a :: r) (.int skip) ev hlen
      (a :: r).length [] (a :: r) false {} .j0 fuel rfl (Nat.le_refl _)
    have hrun' : execS (X P) (exec (X P) (fuel + (r.length + 1))) sweetenFields_loop0
        ⟨[("p0", .list (a :: r)), ("p1", .int skip), ("l0", .list []), ("l1", .list []), ("l2", .bool false),
          ("l3", .int 0)], [("ev", .list ev)]⟩ =
        .normal (sAbs (a :: r) (.int skip) ev i' seen' (sweepV P 0 false (a :: r)) t') := by
      simpa [sAbs, Junk.env, ResV.append] using hrun
    generalize sweepV P 0 false (a :: r) = R at *
    obtain ⟨fs, ds, inv⟩ := R
    cases inv <;> cases t' <;>
      simp [sweetenFields_body, hrun', sAbs, Junk.env, diagsOf, diagV, nm_diag, msgNonString_eq, keyInvalid_eq, hpos, hne,
        List.append_assoc]

/-! ### `sweepV` is `Sugar.sweep`

For ANY encoding of the model's arguments as values on which the three type assertions answer what the constructor of
the argument says, the sweep over values is the encoding of `Sugar.sweep` — the function `sweeten_partition`,
`sweeten_order`, `first_error_only` … are about.  `encArg` / `encPar` is one such encoding (so the hypotheses are
satisfiable), and the three diagnostic messages read from sugar.go are the model's. -/
section link
open ZapVerif.Sugar

variable (enc : Arg → Val) (fV : String → Tok → Tok → Val) (eV : Tok → Val)

def outV : Sugar.Out → Val
  | .passed ty k t => fV ty k t
  | .any k v => anyF k (enc v)
  | .error e => errF (eV e)

def ldiagV : LDiag → Val
  | .multiple e => diagV TransSweeten.msgMultiple (errF (eV e))
  | .dangling a => diagV TransSweeten.msgOdd (anyF TransSweeten.keyIgnored (enc a))

def invV (p : Inv) : Val := .list [.int p.pos, enc p.key, enc p.val]

def resV (r : Res) : ResV := ⟨r.fields.map (outV enc fV eV), r.diags.map (ldiagV enc eV), r.invalid.map (invV enc)⟩

theorem sweepV_is_sweep (P : Par)
    (hF : ∀ a, P.asField (enc a) = match a with | .field ty k t => some (fV ty k t) | _ => none)
    (hE : ∀ a, P.asErr (enc a) = match a with | .err e => some (eV e) | _ => none)
    (hS : ∀ a, P.asStr (enc a) = match a with | .str s => some s | _ => none) :
    ∀ (n : Nat) (args : List Arg), args.length ≤ n → ∀ (i : Nat) (seen : Bool),
      sweepV P i seen (args.map enc) = resV enc fV eV (sweep i seen args) := by
  intro n
  induction n with
  | zero =>
    intro args h i seen
    have : args = [] := List.eq_nil_of_length_eq_zero (by omega)
    subst this; simp [sweepV, sweep, resV]
  | succ m ih =>
    intro args h i seen
    cases args with
    | nil => simp [sweepV, sweep, resV]
    | cons a r =>
      have hr : r.length ≤ m := by simp at h; omega
      have key : ∀ (hf : P.asField (enc a) = none) (he : P.asErr (enc a) = none)
          (hsw : ∀ v r', sweep i seen (a :: v :: r') =
            match a with
            | .str s => (sweep (i+2) seen r').cons1 (.any s v)
            | _ => (sweep (i+2) seen r').cons3 ⟨i, a, v⟩)
          (hsw1 : sweep i seen [a] = { diags := [.dangling a] }),
          sweepV P i seen ((a :: r).map enc) = resV enc fV eV (sweep i seen (a :: r)) := by
        intro hf he hsw hsw1
        cases r with
        | nil => simp [sweepV_dangling P i seen (enc a) hf he, hsw1, resV, ldiagV]
        | cons v r' =>
          have hr' : r'.length ≤ m := by simp at hr; omega
          rw [List.map_cons, List.map_cons, sweepV_pair P i seen (enc a) (enc v) _ hf he, hsw, ih r' hr', hS a]
          cases a <;> simp [resV, Res.cons1, Res.cons3, ResV.cons1, ResV.cons3, outV, invV]
      cases a with
      | field ty k t =>
        rw [List.map_cons, sweepV_field P i seen _ (fV ty k t) _ (by rw [hF]), ih r hr]
        simp [sweep, resV, Res.cons1, ResV.cons1, outV]
      | err e =>
        rw [List.map_cons, sweepV_err P i seen _ (eV e) _ (by rw [hF]) (by rw [hE]), ih r hr]
        cases seen <;> simp [sweep, resV, Res.cons1, Res.cons2, ResV.cons1, ResV.cons2, outV, ldiagV]
      | str s => exact key (by rw [hF]) (by rw [hE]) (fun _ _ => by simp [sweep]) (by simp [sweep])
      | int t => exact key (by rw [hF]) (by rw [hE]) (fun _ _ => by simp [sweep]) (by simp [sweep])
      | nil => exact key (by rw [hF]) (by rw [hE]) (fun _ _ => by simp [sweep]) (by simp [sweep])
      | val vk t => exact key (by rw [hF]) (by rw [hE]) (fun _ _ => by simp [sweep]) (by simp [sweep])

end link

/-- the three diagnostic messages and the two keys, READ from sugar.go by the translator, are the model's -/
theorem sweeten_messages_are_model :
    TransSweeten.msgMultiple = Sugar.msgMultiple ∧ TransSweeten.msgOdd = Sugar.msgOdd ∧
    TransSweeten.msgNonString = Sugar.msgNonString ∧ TransSweeten.keyIgnored = Sugar.keyIgnored := by
  decide +kernel

/-- one concrete encoding: a tag, then the payload -/
def encArg : Sugar.Arg → Val
  | .field ty k t => .list [.int 0, .bytes ty.toUTF8.toList, .bytes k, .bytes t]
  | .err t => .list [.int 1, .bytes t]
  | .str s => .list [.int 2, .bytes s]
  | .int t => .list [.int 3, .bytes t]
  | .nil => .list [.int 4]
  | .val vk t => .list [.int 5, .bytes (toString (repr vk)).toUTF8.toList, .bytes t]

def encPar (cap : Val → Int) : Par :=
  { asField := fun v => match v with | .list (.int 0 :: _) => some v | _ => none,
    asErr := fun v => match v with | .list [.int 1, t] => some t | _ => none,
    asStr := fun v => match v with | .list [.int 2, .bytes s] => some s | _ => none,
    cap := cap }

/-- the hypotheses of `sweepV_is_sweep` hold for `encArg` / `encPar` -/
theorem encPar_answers (cap : Val → Int) :
    (∀ a, (encPar cap).asField (encArg a) = match a with | .field ty k t => some (encArg (.field ty k t)) | _ => none) ∧
    (∀ a, (encPar cap).asErr (encArg a) = match a with | .err e => some (.bytes e) | _ => none) ∧
    (∀ a, (encPar cap).asStr (encArg a) = match a with | .str s => some s | _ => none) := by
  refine ⟨?_, ?_, ?_⟩ <;> intro a <;> cases a <;> rfl

end ZapVerif.C14

/-! ## `getMessage`, `getMessageln`, `log`, `logln` ARE the source (translator round 4, table `Gen/TransMessage.lean`)

sugar.go `getMessage`, `getMessageln` and the WHOLE of `(*SugaredLogger).log` / `logln` (the table TransLogger translates
only their guards), translated mechanically, are interpreted with `fmt.Sprint` / `Sprintf` / `Sprintln`, the `.(string)`
assertion, the core's `Enabled`, the base logger's `Check` and the sweetening of the context (TransSweeten) as parameters;
`Check`, `sweetenFields` and `ce.Write` are recorded.  `msgSpec_is_getMessage` says the message functions are
`Sugar.getMessage` / `getMessageln`, the functions of `message_forms`. -/
set_option linter.unusedSimpArgs false
namespace ZapVerif.C14
open ZapVerif ZapVerif.GoMini ZapVerif.TransMessage ZapVerif.Gen.TransMessage

/-- `getMessage`: no arguments — the template verbatim; a template — `Sprintf`; ONE argument that is a string — that
    string; anything else — `Sprint` -/
theorem getMessage_exec_matches_source (P : Par) (t : Bytes) (args : List Val) (fl : Env) (fuel : Nat) :
    (exec (X P) (fuel + 1) getMessage_body ⟨[("p0", .bytes t), ("p1", .list args)], fl⟩).fin =
      some ([.bytes (msgSpec P t args)], fl) := by
  rw [exec_succ]
  unfold msgSpec
  cases args with
  | nil => simp [getMessage_body]
  | cons a r =>
    have hp : ¬ ((r.length : Int) + 1 = 0) := by omega
    cases t with
    | cons c cs => simp [getMessage_body, hp]
    | nil =>
      cases r with
      | nil =>
        cases hs : P.asStr a with
        | some s => simp [getMessage_body, hs]
        | none => simp [getMessage_body, hs]
      | cons b r' =>
        have hp2 : ¬ ((r'.length : Int) + 1 + 1 = 1) := by omega
        have hp3 : ¬ ((r'.length : Int) + 1 + 1 = 0) := by omega
        simp [getMessage_body, hp2, hp3]

theorem getMessage_matches_source (P : Par) (t : Bytes) (args : List Val) (fl : Env) (fuel : Nat) :
    run (X P) (fuel + 1) "getMessage" [.bytes t, .list args] fl = .done [.bytes (msgSpec P t args)] fl :=
  run_of_fin (X P) _ _ Gen.TransMessage.getMessage _ _ _ _ rfl rfl (getMessage_exec_matches_source P t args fl fuel)

/-- `getMessageln`: `Sprintln` without its last byte; `msg[:len(msg)-1]` cannot panic because `Sprintln` ends in a
    newline (the hypothesis: its result is not empty) -/
theorem getMessageln_exec_matches_source (P : Par) (args : List Val) (fl : Env) (fuel : Nat)
    (hne : P.sprintln args ≠ []) (hlen : ((P.sprintln args).length : Int) < 9223372036854775808) :
    (exec (X P) (fuel + 1) getMessageln_body ⟨[("p0", .list args)], fl⟩).fin = some ([.bytes (msglnSpec P args)], fl) := by
  rw [exec_succ]
  have hpos : 0 < (P.sprintln args).length := List.length_pos_iff.mpr hne
  have hw : wrap .int (((P.sprintln args).length : Int) - 1) = ((P.sprintln args).length : Int) - 1 := by
    rw [wrap_int_id] <;> omega
  have hc : (0 : Int) ≤ ((P.sprintln args).length : Int) - 1 ∧ ((P.sprintln args).length : Int) - 1 ≤ (P.sprintln args).length := by omega
  have ht : (((P.sprintln args).length : Int) - 1).toNat = (P.sprintln args).length - 1 := by omega
  have h1 : (1 : Int) ≤ ((P.sprintln args).length : Int) := by omega
  simp [getMessageln_body, hw, hc, ht, h1, msglnSpec, List.dropLast_eq_take]

theorem getMessageln_matches_source (P : Par) (args : List Val) (fl : Env) (fuel : Nat)
    (hne : P.sprintln args ≠ []) (hlen : ((P.sprintln args).length : Int) < 9223372036854775808) :
    run (X P) (fuel + 1) "getMessageln" [.list args] fl = .done [.bytes (msglnSpec P args)] fl :=
  run_of_fin (X P) _ _ Gen.TransMessage.getMessageln _ _ _ _ rfl rfl (getMessageln_exec_matches_source P args fl fuel hne hlen)


/-- what `log` / `logln` record after the guard, for the message `m`: the base logger's `Check(lvl, m)`; if it answers
    an entry, the sweetening of the CONTEXT (with skip 1) and then `Write` of exactly those fields on that entry -/
def logTrace (P : Par) (base : Val) (l : Int) (m : Bytes) (context : List Val) : List Val :=
  .list [TransMessage.nm "Logger.Check", base, .int l, .bytes m] ::
    (if (P.check base l m).isEmpty then []
     else [.list [TransMessage.nm "Sugar.sweetenFields", .list context, .int 1],
           .list [TransMessage.nm "CE.Write", .list (P.check base l m), .list (P.sweeten context)]])

/-- `(*SugaredLogger).log`, the whole function: a level below DPanic the core does not enable does NOTHING (nothing is
    formatted, nobody is asked); otherwise the message is `getMessage(template, fmtArgs)` and `logTrace` happens -/
theorem Sugar_log_matches_source (P : Par) (base : Val) (l : Int) (t : Bytes) (args context ev : List Val) (fuel : Nat) :
    run (X P) (fuel + 2) "Sugar_log" [.int l, .bytes t, .list args, .list context] [("ev", .list ev), ("base", base)] =
      .done [] [("ev", .list (if l < 3 ∧ P.cen l = false then ev else ev ++ logTrace P base l (msgSpec P t args) context)), ("base", base)] := by
  have hcall : ∀ σ : State, retK σ [.loc "l0"] "getMessage"
      (exec (X P) (fuel + 1) getMessage_body ⟨[("p0", .bytes t), ("p1", .list args)], [("ev", .list ev), ("base", base)]⟩) = _ :=
    fun σ => retK_of_fin1 σ _ _ _ _ _ (getMessage_exec_matches_source P t args _ fuel)
  apply run_of_fin (X P) _ _ Gen.TransMessage.Sugar_log _ _ _ _ rfl rfl
  rw [exec_succ]
  by_cases hl : l < 3
  · cases hc : P.cen l
    · simp [Sugar_log_body, hl, hc]
    · cases hk : P.check base l (msgSpec P t args) with
      | nil => simp [Sugar_log_body, hl, hc, hcall, hk, logTrace, nm_check]
      | cons x xs =>
        have hp : ¬ ((xs.length : Int) + 1 = 0) := by omega
        simp [Sugar_log_body, hl, hc, hcall, hk, hp, logTrace, nm_check, nm_sweeten, nm_ceWrite]
  · cases hk : P.check base l (msgSpec P t args) with
    | nil => simp [Sugar_log_body, hl, hcall, hk, logTrace, nm_check]
    | cons x xs =>
      have hp : ¬ ((xs.length : Int) + 1 = 0) := by omega
      simp [Sugar_log_body, hl, hcall, hk, hp, logTrace, nm_check, nm_sweeten, nm_ceWrite]

theorem Sugar_logln_matches_source (P : Par) (base : Val) (l : Int) (args context ev : List Val) (fuel : Nat)
    (hne : P.sprintln args ≠ []) (hlen : ((P.sprintln args).length : Int) < 9223372036854775808) :
    run (X P) (fuel + 2) "Sugar_logln" [.int l, .list args, .list context] [("ev", .list ev), ("base", base)] =
      .done [] [("ev", .list (if l < 3 ∧ P.cen l = false then ev else ev ++ logTrace P base l (msglnSpec P args) context)), ("base", base)] := by
  have hcall : ∀ σ : State, retK σ [.loc "l0"] "getMessageln"
      (exec (X P) (fuel + 1) getMessageln_body ⟨[("p0", .list args)], [("ev", .list ev), ("base", base)]⟩) = _ :=
    fun σ => retK_of_fin1 σ _ _ _ _ _ (getMessageln_exec_matches_source P args _ fuel hne hlen)
  apply run_of_fin (X P) _ _ Gen.TransMessage.Sugar_logln _ _ _ _ rfl rfl
  rw [exec_succ]
  by_cases hl : l < 3
  · cases hc : P.cen l
    · simp [Sugar_logln_body, hl, hc]
    · cases hk : P.check base l (msglnSpec P args) with
      | nil => simp [Sugar_logln_body, hl, hc, hcall, hk, logTrace, nm_check]
      | cons x xs =>
        have hp : ¬ ((xs.length : Int) + 1 = 0) := by omega
        simp [Sugar_logln_body, hl, hc, hcall, hk, hp, logTrace, nm_check, nm_sweeten, nm_ceWrite]
  · cases hk : P.check base l (msglnSpec P args) with
    | nil => simp [Sugar_logln_body, hl, hcall, hk, logTrace, nm_check]
    | cons x xs =>
      have hp : ¬ ((xs.length : Int) + 1 = 0) := by omega
      simp [Sugar_logln_body, hl, hcall, hk, hp, logTrace, nm_check, nm_sweeten, nm_ceWrite]

/-- the translated `getMessage` / `getMessageln` ARE `Sugar.getMessage` / `getMessageln` (the functions of
    `message_forms`), for the `fmt` the parameters induce on any encoding of the arguments on which the `.(string)`
    assertion answers the constructor -/
theorem msgSpec_is_getMessage (P : Par) (enc : Sugar.Arg → Val)
    (hs : ∀ a, P.asStr (enc a) = match a with | .str s => some s | _ => none) (t : Bytes) (args : List Sugar.Arg) :
    msgSpec P t (args.map enc) =
      Sugar.getMessage ⟨fun as => P.sprint (as.map enc), fun t as => P.sprintf t (as.map enc), fun as => P.sprintln (as.map enc)⟩ t args ∧
    msglnSpec P (args.map enc) =
      Sugar.getMessageln ⟨fun as => P.sprint (as.map enc), fun t as => P.sprintf t (as.map enc), fun as => P.sprintln (as.map enc)⟩ args := by
  refine ⟨?_, rfl⟩
  unfold msgSpec Sugar.getMessage
  cases args with
  | nil => simp
  | cons a r =>
    cases t with
    | cons c cs => simp
    | nil =>
      cases r with
      | nil => cases a <;> simp [hs]
      | cons b r' => simp

end ZapVerif.C14
