import ZapVerif.Model.Sugar
import ZapVerif.Proofs.Sugar
import ZapVerif.Gen.Callers
/-! # C14 — SugaredLogger never drops or misattributes loosely-typed arguments

Objects: `sweep`/`sweeten` mirror `sweetenFields`; `loopGo` is the same loop with Go's index expressions checked;
`trace` lists, in argument order, the event (output field or diagnostic) that consumed each argument;
`logMsg`/`withArgs` are the bodies of `log`/`logln`/`With`/`WithLazy`; `getMessage*` take `fmt` as a parameter.
The routing of every exported method's parameters into `s.log`/`s.logln` is read from sugar.go (Gen.Callers). -/
namespace ZapVerif.C14
open ZapVerif ZapVerif.Sugar

/-- the index loop of sugar.go terminates within `len(args)` iterations, never indexes out of range (no `panic`
    outcome) and returns the three lists of `sweeten` -/
theorem sweeten_total (args : List Arg) : loopGo args args.length 0 false {} = .ok (sweeten args) := by
  rw [loopGo_eq args args.length 0 false {} (by omega)]
  simp [sweeten, Res.append]

/-- the result lists are the projections of the event trace: nothing is reordered or invented -/
theorem sweeten_is_trace (args : List Arg) : sweeten args = split (trace 0 false args) :=
  sweep_eq_split 0 false args

/-- **accounting**: concatenating, in order, the arguments named by each event (output field, multiple-error
    diagnostic, dangling-key diagnostic, invalid-pair element) gives back exactly the argument list — every position
    is consumed by exactly one event, and that event carries the very arguments found there -/
theorem accounting (args : List Arg) : (trace 0 false args).flatMap Ev.args = args :=
  trace_args 0 false args

/-- an `invalid` element records the position of its key: `args[p] = k`, `args[p+1] = v` -/
theorem invalid_position (args : List Arg) (pre post : List Ev) (p : Nat) (k v : Arg)
    (h : trace 0 false args = pre ++ Ev.invalid p k v :: post) :
    p = (pre.flatMap Ev.args).length ∧ args[p]? = some k ∧ args[p+1]? = some v := by
  have hp := trace_invalid_pos 0 false args pre p k v post h
  have ha := accounting args
  rw [h] at ha
  simp only [List.flatMap_append, List.flatMap_cons, Ev.args] at ha
  have hp' : p = (pre.flatMap Ev.args).length := by omega
  refine ⟨hp', ?_, ?_⟩ <;> rw [← ha, hp'] <;> simp

def covered (r : Res) : Nat :=
  (r.fields.map fun | .any .. => 2 | _ => 1).sum + r.diags.length + 2 * r.invalid.length

/-- counting form of `accounting` over the three lists `sweetenFields` really builds -/
theorem accounting_count (args : List Arg) : covered (sweeten args) = args.length := by
  unfold sweeten
  generalize 0 = i; generalize false = seen
  fun_induction sweep i seen args <;> simp_all [covered, Res.cons1, Res.cons2, Res.cons3] <;> omega

/-- the arguments an output field stands for -/
def Out.args : Out → List Arg
  | .passed ty k t => [.field ty k t]
  | .any k v => [.str k, v]
  | .error e => [.err e]

theorem out_sublist (i : Nat) (seen : Bool) (args : List Arg) :
    (((trace i seen args).filterMap Ev.out?).flatMap Out.args).Sublist args := by
  fun_induction trace i seen args <;>
    simp_all [Ev.out?, Out.args, List.filterMap_cons]
  all_goals first
    | exact List.Sublist.cons _ (by assumption)
    | exact List.Sublist.cons _ (List.Sublist.cons _ (by assumption))
    | exact List.nil_sublist _

/-- typed fields pass through unchanged, string-keyed pairs become `Any key value`, in argument order: the
    arguments the output fields stand for form a subsequence of the argument list -/
theorem fields_in_order (args : List Arg) :
    (sweeten args).fields = (trace 0 false args).filterMap Ev.out? ∧
    ((sweeten args).fields.flatMap Out.args).Sublist args := by
  have h := sweeten_is_trace args
  constructor
  · rw [h]; rfl
  · rw [h]; exact out_sublist 0 false args

/-- a string-keyed pair is rendered with the type tag `zap.Any` chooses for the value, under its key; a typed field
    is rendered as it came -/
example (k : Tok) (v : Arg) : (Out.any k v).render = .f v.anyType.name k v.tok := rfl
example (ty : String) (k t : Tok) : (Out.passed ty k t).render = .f ty k t := rfl

/-- among the bare errors (error values in key position) the first becomes the field keyed `error`; every later one is
    a multiple-error diagnostic -/
theorem first_error_key (args : List Arg) :
    (trace 0 false args).filter Ev.isErrEv = [] ∨
    ∃ e rest, (trace 0 false args).filter Ev.isErrEv = Ev.error e :: rest ∧
      (∀ x ∈ rest, x.isMultiple = true) ∧ (Out.error e).key = keyError ∧
      (Out.error e).render = .f FT.error.name keyError e :=
  match trace_first_error 0 args with
  | .inl h => .inl h
  | .inr ⟨e, rest, h1, h2⟩ => .inr ⟨e, rest, h1, h2, rfl, rfl⟩

theorem filterMap_out_filter (t : List Ev) : (t.filter Ev.isOut).filterMap Ev.out? = t.filterMap Ev.out? := by
  induction t with
  | nil => rfl
  | cons e r ih => cases e <;> simp_all [Ev.isOut, Ev.out?, List.filter_cons, List.filterMap_cons]

theorem filterMap_ldiag_filter (t : List Ev) : (t.filter Ev.isOut).filterMap Ev.ldiag? = [] := by
  induction t with
  | nil => rfl
  | cons e r ih => cases e <;> simp_all [Ev.isOut, Ev.out?, Ev.ldiag?, List.filter_cons, List.filterMap_cons]

theorem filterMap_inv_filter (t : List Ev) : (t.filter Ev.isOut).filterMap Ev.inv? = [] := by
  induction t with
  | nil => rfl
  | cons e r ih => cases e <;> simp_all [Ev.isOut, Ev.out?, Ev.inv?, List.filter_cons, List.filterMap_cons]

theorem clean_sublist (i : Nat) (seen : Bool) (args : List Arg) :
    (((trace i seen args).filter Ev.isOut).flatMap Ev.args).Sublist args := by
  fun_induction trace i seen args <;>
    simp_all [Ev.isOut, Ev.out?, Ev.args, List.filter_cons]
  all_goals first
    | exact List.Sublist.cons _ (by assumption)
    | exact List.Sublist.cons _ (List.Sublist.cons _ (by assumption))
    | exact List.nil_sublist _

/-- the well-formed arguments are logged exactly as if the ill-formed ones had not been passed: removing every
    argument named by a diagnostic leaves a subsequence that produces the same fields and no diagnostic -/
theorem wellformed_still_logged (args : List Arg) :
    (clean args).Sublist args ∧
    (sweeten (clean args)).fields = (sweeten args).fields ∧
    (sweeten (clean args)).diags = [] ∧ (sweeten (clean args)).invalid = [] := by
  have hc : trace 0 false (clean args) = (trace 0 false args).filter Ev.isOut := trace_clean 0 false args 0
  refine ⟨clean_sublist 0 false args, ?_, ?_, ?_⟩
  · rw [sweeten_is_trace, sweeten_is_trace, hc]; exact filterMap_out_filter _
  · rw [sweeten_is_trace, hc]; exact filterMap_ldiag_filter _
  · rw [sweeten_is_trace, hc]; exact filterMap_inv_filter _

/-- every diagnostic entry is an error-level entry, separate from the entry that carries the fields -/
theorem diagnostics_error_level (ctx : List FieldD) (r : Res) : ∀ e ∈ r.diagEntries ctx, e.lvl = errorLevel := by
  intro e he
  simp only [Res.diagEntries, List.mem_append, List.mem_map] at he
  rcases he with ⟨d, _, rfl⟩ | he
  · cases d <;> rfl
  · split at he <;> simp_all

/-- one diagnostic entry per multiple-error / dangling key, one more carrying all invalid pairs (when any) -/
theorem diagnostics_count (ctx : List FieldD) (r : Res) :
    (r.diagEntries ctx).length = r.diags.length + (if r.invalid = [] then 0 else 1) := by
  simp only [Res.diagEntries, List.length_append, List.length_map]
  split <;> simp

/-- with the method's level and Error enabled, a `*w` call records the diagnostics and then one entry at the requested
    level with the given message and, after the logger's context, exactly the fields of `sweeten` -/
theorem logw_entries (c : Cfg) (ctx : List FieldD) (l : Int) (msg : Bytes) (args : List Arg)
    (hl : c.enabled l = true) (he : c.enabled errorLevel = true) :
    (logMsg c ctx l msg args).entries =
      (sweeten args).diagEntries ctx ++ [⟨l, msg, ctx ++ (sweeten args).fields.map Out.render⟩] := by
  simp [logMsg, Cfg.check, Cfg.diagOut, hl, he]

/-- `With`/`WithLazy`: the child's context is the parent's followed by the fields of `sweeten`; diagnostics are recorded
    by the parent when Error is enabled -/
theorem with_entries (c : Cfg) (ctx : List FieldD) (args : List Arg) (he : c.enabled errorLevel = true) :
    withArgs c ctx args = ((sweeten args).diagEntries ctx, ctx ++ (sweeten args).fields.map Out.render) := by
  simp [withArgs, Cfg.diagOut, he]

/-- the three facts about `fmt` that the message theorems use -/
structure FmtFacts (F : Fmt) : Prop where
  sprint_nil : F.sprint [] = []
  sprint_str : ∀ s, F.sprint [.str s] = s
  sprintln_nl : ∀ a, ∃ m, F.sprintln a = m ++ [10]

/-- print-style = Sprint; no arguments = the template verbatim; template and arguments = Sprintf;
    println-style = Sprintln without its trailing newline -/
theorem message_forms (F : Fmt) (h : FmtFacts F) :
    (∀ args, getMessage F [] args = F.sprint args) ∧
    (∀ t, getMessage F t [] = t) ∧
    (∀ t args, t ≠ [] → args ≠ [] → getMessage F t args = F.sprintf t args) ∧
    (∀ args, getMessageln F args ++ [10] = F.sprintln args) := by
  refine ⟨?_, ?_, ?_, ?_⟩
  · intro args
    match args with
    | [] => simp [getMessage, h.sprint_nil]
    | [.str s] => simp [getMessage, h.sprint_str]
    | [.field ..] | [.err _] | [.int _] | [.nil] | [.val ..] => simp [getMessage]
    | _ :: _ :: _ => simp [getMessage]
  · intro t; simp [getMessage]
  · intro t args ht ha; simp [getMessage, ht, ha]
  · intro args
    obtain ⟨m, hm⟩ := h.sprintln_nl args
    simp [getMessageln, hm]

/-! ## tie to sugar.go: how each exported method routes its parameters (regenerated table) -/

open ZapVerif.Gen.Callers in
def expectedMethods : List SugarMethod :=
  [("Debug", some (-1)), ("Info", some 0), ("Warn", some 1), ("Error", some 2), ("DPanic", some 3), ("Panic", some 4),
   ("Fatal", some 5), ("Log", none)].flatMap fun ((base, lvl) : String × Option Int) =>
    let o := if lvl.isNone then 1 else 0
    [ ⟨base, false, lvl, .empty, .param o, .none⟩,                      -- print style: ("", args, nil)
      ⟨base ++ "f", false, lvl, .param o, .param (o+1), .none⟩,         -- printf style: (template, args, nil)
      ⟨base ++ "ln", true, lvl, .none, .param o, .none⟩,                -- println style: logln(args, nil)
      ⟨base ++ "w", false, lvl, .param o, .none, .param (o+1)⟩ ]        -- structured: (msg, nil, keysAndValues)

/-- every level has its four methods, each logs at the level of its name and hands its parameters to
    `log`/`logln` in the role of its family; there is no other logging method -/
theorem every_method_routes :
    (∀ m ∈ expectedMethods, m ∈ Gen.Callers.sugarMethods) ∧
    Gen.Callers.sugarMethods.length = expectedMethods.length := by decide

/-! ## non-vacuity -/

/-- the hypotheses of `message_forms` are satisfiable -/
example : FmtFacts ⟨fun a => match a with | [.str s] => s | [] => [] | _ => [63],
                    fun t _ => t, fun _ => [10]⟩ :=
  ⟨rfl, fun _ => rfl, fun _ => ⟨[], rfl⟩⟩

/-- a list with every kind of ill-formed argument: pair, invalid pair, first and second bare error, dangling key -/
example : sweeten [.str [107], .int [49], .int [50], .nil, .err [101], .err [102], .field "Int64" [102] [55], .str [100]] =
    { fields := [.any [107] (.int [49]), .error [101], .passed "Int64" [102] [55]],
      diags := [.multiple [102], .dangling (.str [100])],
      invalid := [⟨2, .int [50], .nil⟩] } := by decide

example : clean [.str [107], .int [49], .int [50], .nil, .err [101], .err [102], .field "Int64" [102] [55], .str [100]] =
    [.str [107], .int [49], .err [101], .field "Int64" [102] [55]] := by decide

end ZapVerif.C14
