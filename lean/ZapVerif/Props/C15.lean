import ZapVerif.Model.Callers
import ZapVerif.Proofs.TransCaller
import ZapVerif.Proofs.Callers
import ZapVerif.Proofs.TransCapture
import ZapVerif.Proofs.TransStackFmt
/-! # C15 — caller and stack annotations identify the user's call site

A stack is the list of frames (innermost first) that `runtime.Callers(0, …)` would enumerate from inside
`stacktrace.Capture`; the frame type is arbitrary. Every offset (`callerSkipOffset`, Sugar `+`/Desugar `−`, the std-log
depth constants, `runtime.Callers(skip+n)`, `Take`'s `+n`, slog's `n +`, the slab size and growth factor) and the list
of front-end methods with the number of zap frames they put between the user and `Logger.check` are regenerated from
the source (`Gen.Callers`). The depths inside package log and log/slog are the constants `stdlibLogFrames`,
`stdlibSlogFrames` of the model (validated by the correspondence check only); `runtime.Callers`/`CallersFrames`
(including inlining) are trusted to enumerate the logical frames. -/
namespace ZapVerif.C15
open ZapVerif ZapVerif.Callers ZapVerif.Gen.Callers

variable {F : Type}

/-- the skips a front end accumulates cover exactly the frames it puts between `runtime.Callers` and its caller -/
abbrev balanced (fe : FrontEnd) : Prop :=
  fe.extraSkip + (if fe.onSugared then sugarDelta else 0) + callerSkipOffset + captureCallersOffset = 3 + fe.zapFrames

theorem annot_eq (a b : Annot F) (h1 : a.caller = b.caller) (h2 : a.stack = b.stack) : a = b := by
  cases a; cases b; simp_all

/-- what a balanced front end records, on any logger whose accumulated AddCallerSkip equals the wrapper depth -/
theorem via_selects (l : Logger) (fe : FrontEnd) (hbal : balanced fe) (hfe : fe.onSugared = l.sugared)
    (w : Nat) (hskip : l.callerSkip = (w : Int) + (if l.sugared then (sugarDelta : Int) else 0))
    (addCaller addStack : Bool) (slab : Nat) (hslab : 0 < slab)
    (pre zap ws : List F) (user : F) (outer : List F)
    (hpre : pre.length = 3) (hzap : zap.length = fe.zapFrames) (hws : ws.length = w) :
    logVia l fe addCaller addStack slab pre zap (ws ++ user :: outer) =
      { caller := if addCaller then some user else none,
        stack := if addStack then some (user :: formatStack outer) else none } := by
  have hn : (l.callerSkip + (fe.extraSkip : Int) + (callerSkipOffset : Int)).toNat + captureCallersOffset =
      pre.length + zap.length + ws.length := by
    unfold balanced at hbal
    rw [hfe] at hbal
    cases hs : l.sugared <;> simp [hs] at hskip hbal <;> omega
  have hd := drop_structured pre zap ws user outer _ hn
  unfold logVia annotate
  cases addCaller <;> cases addStack <;> simp only [Bool.false_eq_true, not_false_eq_true, and_self, ↓reduceIte,
    not_true_eq_false, and_false, false_and]
  · rw [capture_full _ _ _ hslab, hd]; simp [formatFrom]
  · rw [capture_first, hd]; simp
  · rw [capture_full _ _ _ hslab, hd]; simp [formatFrom]

theorem logger_balanced (m : String) : balanced (.logger m) := by
  show 0 + (if false = true then sugarDelta else 0) + callerSkipOffset + captureCallersOffset = 3 + 1
  decide
theorem sugar_balanced (m : String) : balanced (.sugar m) := by
  show 0 + (if true = true then sugarDelta else 0) + callerSkipOffset + captureCallersOffset = 3 + (1 + sugarLogToCheck)
  decide
/-- uses the stdlib-internal constant `stdlibLogFrames` -/
theorem stdlog_balanced : balanced .stdlog := by decide

/-- the entry-producing front ends of the property: every exported Logger method that reaches `check`, every exported
    SugaredLogger logging method, and the std-log bridge -/
def userFrontEnd : FrontEnd → Bool
  | .logger m => (.logger m : FrontEnd).known
  | .sugar m => (.sugar m : FrontEnd).known
  | .stdlog => true
  | _ => false

/-- **caller_is_user**: for every derivation chain (Sugar/Desugar/With/WithLazy/Named/WithOptions, in any well-typed
    order) whose AddCallerSkip values sum to the wrapper depth `w`, every front end that exists on the resulting logger,
    every stack shape (any frames below, `w` wrapper frames, the user's frame, anything above) and every pooled slab,
    the caller recorded is the user's frame — and the stack, when requested, starts there -/
theorem caller_is_user (ds : List Deriv) (l : Logger) (hrun : run ds {} = some l)
    (w : Nat) (hw : sumSkips ds = (w : Int))
    (fe : FrontEnd) (huser : userFrontEnd fe = true) (hfe : fe.onSugared = l.sugared)
    (addStack : Bool) (slab : Nat) (hslab : 0 < slab)
    (pre zap ws : List F) (user : F) (outer : List F)
    (hpre : pre.length = 3) (hzap : zap.length = fe.zapFrames) (hws : ws.length = w) :
    (logVia l fe true addStack slab pre zap (ws ++ user :: outer)).caller = some user := by
  have hskip := run_skip ds l hrun
  rw [hw] at hskip
  have hbal : balanced fe := by
    cases fe with
    | logger m => exact logger_balanced m
    | sugar m => exact sugar_balanced m
    | stdlog => exact stdlog_balanced
    | stdlogDeep => simp [userFrontEnd] at huser
    | diagWith => simp [userFrontEnd] at huser
    | diagLog => simp [userFrontEnd] at huser
  rw [via_selects l fe hbal hfe w hskip true addStack slab hslab pre zap ws user outer hpre hzap hws]
  rfl

/-- every method the table lists is a front end of the theorem (non-vacuity of `userFrontEnd`) -/
theorem all_methods_are_front_ends :
    (∀ m ∈ loggerMethods, userFrontEnd (.logger m.1) = true) ∧ (∀ m ∈ sugarMethods, userFrontEnd (.sugar m.name) = true) := by
  constructor <;> decide

/-- the remaining exported SugaredLogger methods produce no entry of their own (a logging method that delegated
    through another exported method would show up here instead of in `sugarMethods`) -/
theorem non_logging_methods :
    sugarNonLogging = ["Desugar", "Level", "Named", "Sync", "With", "WithLazy", "WithOptions"] := by decide

/-- the diagnostics `sweetenFields` issues about ill-formed arguments are attributed to the user's call as well, under
    With/WithLazy and under the `*w` methods -/
theorem diag_caller_is_user (ds : List Deriv) (l : Logger) (hrun : run ds {} = some l) (hs : l.sugared = true)
    (w : Nat) (hw : sumSkips ds = (w : Int))
    (fe : FrontEnd) (hfe : fe = .diagWith ∨ fe = .diagLog)
    (addStack : Bool) (slab : Nat) (hslab : 0 < slab)
    (pre zap ws : List F) (user : F) (outer : List F)
    (hpre : pre.length = 3) (hzap : zap.length = fe.zapFrames) (hws : ws.length = w) :
    (logVia l fe true addStack slab pre zap (ws ++ user :: outer)).caller = some user := by
  have hskip := run_skip ds l hrun
  rw [hw] at hskip
  have hbal : balanced fe := by rcases hfe with rfl | rfl <;> decide
  have hon : fe.onSugared = l.sugared := by rcases hfe with rfl | rfl <;> simp [FrontEnd.onSugared, hs]
  rw [via_selects l fe hbal hon w hskip true addStack slab hslab pre zap ws user outer hpre hzap hws]
  rfl

/-- Sugar then Desugar (and Desugar then Sugar) give back the same caller skip -/
theorem sugar_desugar_inverse (l : Logger) :
    (l.sugared = false → (Deriv.sugar.apply l).bind Deriv.desugar.apply = some l) ∧
    (l.sugared = true → (Deriv.desugar.apply l).bind Deriv.sugar.apply = some l) := by
  have h : (sugarDelta : Int) = (desugarDelta : Int) := by rw [sugar_desugar_eq]
  constructor <;> intro hs <;> cases l <;> simp_all [Deriv.apply] <;> omega

/-- **capture_complete**: whatever the depth of the stack and the size of the pooled slab, the doubling loop terminates
    (the result is `some`) and returns every frame from the requested one outward -/
theorem capture_complete (st : List F) (skip slab : Nat) (h : 0 < slab) :
    capture st skip true slab = some (st.drop (skip + captureCallersOffset)) :=
  capture_full st skip slab h

/-- in particular with the slab size of stack.go, below and above its capacity -/
theorem capture_complete_pooled (st : List F) (skip : Nat) :
    capture st skip true slabSize = some (st.drop (skip + captureCallersOffset)) :=
  capture_full st skip slabSize (by decide)

/-- **stack_starts_at_caller**: when both annotations are on, the first frame of the stack is the caller -/
theorem stack_starts_at_caller (callerSkip : Int) (slab : Nat) (st : List F) (c : F)
    (h : (annotate callerSkip true true slab st).caller = some c) :
    ∃ rest, (annotate callerSkip true true slab st).stack = some (c :: rest) := by
  unfold annotate at h ⊢
  simp only [and_self, ↓reduceIte] at h ⊢
  cases hc : capture st (callerSkip + callerSkipOffset).toNat true slab with
  | none => simp [hc] at h
  | some fr =>
    cases fr with
    | nil => simp [hc] at h
    | cons f r => simp [hc, formatFrom] at h ⊢; exact h

/-- **last_runtime_frame_dropped** (frame selection of stack.go): the stack text is the user's frame and everything
    above it except the outermost frame; nothing in between is missing, whatever the depth -/
theorem stack_complete (l : Logger) (fe : FrontEnd) (hbal : balanced fe) (hfe : fe.onSugared = l.sugared)
    (w : Nat) (hskip : l.callerSkip = (w : Int) + (if l.sugared then (sugarDelta : Int) else 0))
    (addCaller : Bool) (slab : Nat) (hslab : 0 < slab)
    (pre zap ws : List F) (user : F) (outer : List F) (last : F)
    (hpre : pre.length = 3) (hzap : zap.length = fe.zapFrames) (hws : ws.length = w) :
    (logVia l fe addCaller true slab pre zap (ws ++ user :: (outer ++ [last]))).stack = some (user :: outer) := by
  rw [via_selects l fe hbal hfe w hskip addCaller true slab hslab pre zap ws user (outer ++ [last]) hpre hzap hws]
  simp [formatStack]

/-- frame selection of stack.go in isolation: the first frame is always formatted, then every further frame except
    the one for which `Next` reports `more = false` (runtime.goexit / runtime.main) -/
theorem last_runtime_frame_dropped (f : F) (mid : List F) (last : F) :
    formatFrom (f :: (mid ++ [last])) = f :: mid := by
  simp [formatFrom, formatStack]

/-- a one-frame capture keeps its only frame (`FormatFrame` of the first frame is unconditional) -/
example (f : F) : formatFrom [f] = [f] := rfl

/-- **stack_iff_level**: a stack is attached exactly when the entry is written, the AddStacktrace enabler accepts its
    level, and the requested frame exists -/
theorem stack_iff_level (c : LevelCfg) (lvl callerSkip : Int) (addCaller : Bool) (slab : Nat) (hslab : 0 < slab) (st : List F) :
    (∃ a, checkAnnot c lvl callerSkip addCaller slab st = some a ∧ a.stack.isSome = true) ↔
      (c.coreMin ≤ lvl ∧ c.stackLevels lvl = true ∧
        (callerSkip + callerSkipOffset).toNat + captureCallersOffset < st.length) := by
  unfold checkAnnot LevelCfg.will annotate
  by_cases hw : c.coreMin ≤ lvl
  · cases hs : c.stackLevels lvl
    · cases addCaller <;> simp [hw, capture_first] <;> split <;> simp
    · simp only [hw, decide_true, ↓reduceIte, capture_full _ _ _ hslab]
      cases hd : st.drop ((callerSkip + callerSkipOffset).toNat + captureCallersOffset) with
      | nil =>
        have := List.drop_eq_nil_iff.mp hd
        simp; omega
      | cons f r =>
        have : (callerSkip + callerSkipOffset).toNat + captureCallersOffset < st.length := by
          apply Nat.lt_of_not_le; intro hle
          rw [List.drop_eq_nil_of_le hle] at hd; simp at hd
        simp [this]
  · simp [hw]

/-! ## std-log and slog constants -/

/-- full-strength claim for the std-log bridge: every way of logging through the `*log.Logger` is balanced.
    It does NOT hold for Panic*/Fatal*/package-level Output since Go 1.21 (known finding `C15:stdlog-extra-frame`):
    `caller_is_user` covers the Print*/(*Logger).Output family (`stdlog_balanced`), and `stdlog_deep_fails` is the witness. -/
abbrev stdlog_all_balanced : Prop := balanced .stdlog ∧ balanced .stdlogDeep

theorem stdlog_all_balanced_partial : balanced .stdlog := stdlog_balanced

theorem stdlog_deep_fails : ¬ stdlog_all_balanced := by decide

/-- what is recorded instead: the frame of package log that called `(*Logger).Output` -/
example : (logVia ({} : Logger) .stdlogDeep true false 64 [100, 101, 102] [1, 2, 3, 4, 5] ([] ++ 42 :: [50, 99]) : Annot Nat).caller
    = some 5 := by decide

/-- the std-log bridge adds exactly `loggerWriter.Write` plus the two frames of package log -/
theorem stdlog_depth : stdLogDefaultDepth + loggerWriterDepth = 1 + stdlibLogFrames := by decide

/-- every std-log constructor applies that skip -/
theorem stdlog_constructors : ∀ c ∈ ["NewStdLog", "NewStdLogAt", "redirectStdLogAt"], c ∈ stdLogConstructors := by decide

/-- slog handler: the caller is the frame slog recorded; with `WithCallerSkip w` and `w` wrapper frames the stack starts
    at the user's frame and is complete except for the outermost frame -/
theorem slog_stack_starts_at_user (w : Nat) (addCaller : Bool) (rec : Option F) (slab : Nat) (hslab : 0 < slab)
    (pre lib ws : List F) (user : F) (outer : List F) (last : F)
    (hpre : pre.length = 3 + 1)                      -- runtime.Callers, Capture, Take, Handle
    (hlib : lib.length = stdlibSlogFrames) (hws : ws.length = w) :
    slogHandle w addCaller true rec slab (stackOf pre lib (ws ++ user :: (outer ++ [last]))) =
      { caller := if addCaller then rec else none, stack := some (user :: outer) } := by
  have hn : slogTakeSkip + w + takeOffset + captureCallersOffset = pre.length + lib.length + ws.length := by
    rw [hpre, hlib, hws]; simp [slogTakeSkip, takeOffset, captureCallersOffset, stdlibSlogFrames]; omega
  have hd := drop_structured pre lib ws user (outer ++ [last]) _ hn
  simp only [slogHandle, take, ↓reduceIte, capture_full _ _ _ hslab, hd, Option.map_some]
  simp [formatStack, List.dropLast_cons_of_ne_nil]

/-! ## path trimming (zapcore.EntryCaller.TrimmedPath) -/

theorem lastIndexOf_none (b : UInt8) (s : Bytes) (h : b ∉ s) : lastIndexOf b s = none := by
  induction s with
  | nil => rfl
  | cons c r ih =>
    have hc : c ≠ b := fun e => h (e ▸ List.mem_cons_self)
    have hr : b ∉ r := fun m => h (List.mem_cons_of_mem _ m)
    simp [lastIndexOf, ih hr, hc]

theorem lastIndexOf_sep (b : UInt8) (x y : Bytes) (h : b ∉ y) : lastIndexOf b (x ++ b :: y) = some x.length := by
  induction x with
  | nil => simp [lastIndexOf, lastIndexOf_none b y h]
  | cons c r ih => simp [lastIndexOf, ih]

/-- TrimmedPath keeps exactly the last two path elements: `…/dir/file` ↦ `dir/file` -/
theorem trimmed_keeps_last_two (pre dir file : Bytes) (hd : slash ∉ dir) (hf : slash ∉ file) :
    trimmedFile (pre ++ slash :: (dir ++ slash :: file)) = dir ++ slash :: file := by
  have e1 : pre ++ slash :: (dir ++ slash :: file) = (pre ++ slash :: dir) ++ slash :: file := by simp
  have h1 : lastIndexOf slash (pre ++ slash :: (dir ++ slash :: file)) = some (pre ++ slash :: dir).length := by
    rw [e1]; exact lastIndexOf_sep slash (pre ++ slash :: dir) file hf
  have h2 : (pre ++ slash :: (dir ++ slash :: file)).take (pre ++ slash :: dir).length = pre ++ slash :: dir := by
    rw [e1, List.take_left' rfl]
  have h3 : lastIndexOf slash (pre ++ slash :: dir) = some pre.length := lastIndexOf_sep slash pre dir hd
  have e2 : pre ++ slash :: (dir ++ slash :: file) = (pre ++ [slash]) ++ (dir ++ slash :: file) := by simp
  simp only [trimmedFile, h1, h2, h3]
  rw [e2, List.drop_left' (by simp)]

/-- with fewer than two separators the full path is kept -/
theorem trimmed_short (dir file : Bytes) (hd : slash ∉ dir) (hf : slash ∉ file) :
    trimmedFile file = file ∧ trimmedFile (dir ++ slash :: file) = dir ++ slash :: file := by
  constructor
  · simp [trimmedFile, lastIndexOf_none slash file hf]
  · have h1 := lastIndexOf_sep slash dir file hf
    simp [trimmedFile, h1, lastIndexOf_none slash dir hd]

/-! ## non-vacuity -/

/-- a concrete chain: Sugar, With, WithOptions(AddCallerSkip 1), Desugar, WithOptions(AddCallerSkip 1), Sugar — two
    wrappers, sugared method: the selected frame is the user's -/
example : (run [.sugar, .with_, .withOptions [1], .desugar, .withOptions [1], .sugar] {}).map
    (fun l => (logVia l (.sugar "Infow") true true 64 [100, 101, 102] [1, 2, 3] ([10, 11] ++ 42 :: [50, 51, 99])).caller) =
    some (some 42) := by decide

example : (logVia ({} : Logger) (.logger "Info") true true 64 [100, 101, 102] [1] ([] ++ 42 :: [50, 51, 99])).stack =
    some [42, 50, 51] := by decide

end ZapVerif.C15

/-! ## the model's path trimming IS the source (Go→GoMini translation, docs/TRANSLATOR.md)

`Gen/TransCaller.lean` holds `EntryCaller.FullPath` and `EntryCaller.TrimmedPath` as read from zapcore/entry.go on this
run.  For every file path (any length < 2^63, any number of separators) and line the interpreted functions return
exactly `Callers.fullPath` / `Callers.trimmedPath`; the slice expressions `ec.File[:idx]` and `ec.File[idx+1:]` are in
bounds.  `strconv` (`buf.AppendInt`) is the external intrinsic `itoa`. -/
namespace ZapVerif.C15
set_option linter.unusedSimpArgs false
open ZapVerif ZapVerif.Callers ZapVerif.GoMini ZapVerif.TransCaller ZapVerif.Gen.TransCaller

/-- body of `FullPath` ≡ `Callers.fullPath` -/
theorem FullPath_exec_matches_source (d : Bool) (file : Bytes) (line : Nat) (fuel : Nat)
    (hline : (line : Int) < 9223372036854775808) :
    (exec X (fuel + 1) FullPath_body ⟨[], cfld d file line⟩).fin =
      some ([.bytes (fullPath d file line)], cfld d file line) := by
  rw [exec_succ]
  have hw : wrap .i64 (line : Int) = line := by rw [wrap_i64_id] <;> omega
  have hu : Bytes.ofString "undefined" = [117, 110, 100, 101, 102, 105, 110, 101, 100] := by decide +kernel
  cases d <;> simp [FullPath_body, fullPath, hw, hu]

/-- `ec.FullPath()` ≡ `Callers.fullPath` -/
theorem FullPath_matches_source (d : Bool) (file : Bytes) (line : Nat) (fuel : Nat)
    (hline : (line : Int) < 9223372036854775808) :
    run X (fuel + 1) "FullPath" [] (cfld d file line) = .done [.bytes (fullPath d file line)] (cfld d file line) :=
  run_of_fin X _ _ Gen.TransCaller.FullPath [] _ _ _ rfl rfl (FullPath_exec_matches_source d file line fuel hline)

/-- `ec.TrimmedPath()` ≡ `Callers.trimmedPath`: "undefined" for an undefined caller; the full path when the file has
    fewer than two separators; otherwise everything after the penultimate separator, `:`, the line — for every path -/
theorem TrimmedPath_matches_source (d : Bool) (file : Bytes) (line : Nat) (fuel : Nat)
    (hline : (line : Int) < 9223372036854775808) (hfile : (file.length : Int) < 9223372036854775808) :
    run X (fuel + 2) "TrimmedPath" [] (cfld d file line) = .done [.bytes (trimmedPath d file line)] (cfld d file line) := by
  refine run_of_fin X _ _ Gen.TransCaller.TrimmedPath [] _ _ _ rfl rfl ?_
  show (exec X (fuel + 2) TrimmedPath_body ⟨[], cfld d file line⟩).fin = _
  rw [exec_succ]
  have hfull : ∀ (σ : State) (l : LV), retK σ [l] "FullPath" (exec X (fuel + 1) FullPath_body ⟨[], cfld d file line⟩) =
      .normal (({ σ with fld := cfld d file line } : State).assign1 l (.bytes (fullPath d file line))) :=
    fun σ l => retK_of_fin1 σ l "FullPath" _ _ _ (FullPath_exec_matches_source d file line fuel hline)
  have hw : wrap .i64 (line : Int) = line := by rw [wrap_i64_id] <;> omega
  have hu : Bytes.ofString "undefined" = [117, 110, 100, 101, 102, 105, 110, 101, 100] := by decide +kernel
  cases d
  · simp [TrimmedPath_body, trimmedPath, hu]
  · cases h1 : lastIndexOf slash file with
    | none =>
      have e1 : lastIndexByte file 47 = -1 := by rw [lastIndexByte_eq]; simp [show (47 : UInt8) = slash from rfl, h1]
      simp [TrimmedPath_body, trimmedPath, trimmedFile, fullPath, h1, e1, hfull]
    | some idx =>
      have e1 : lastIndexByte file 47 = idx := by rw [lastIndexByte_eq]; simp [show (47 : UInt8) = slash from rfl, h1]
      have hlt := lastIndexOf_lt slash file idx h1
      have hne : ¬ ((idx : Int) = -1) := by omega
      have hb1 : (0 : Int) ≤ idx ∧ (idx : Int) ≤ file.length := by omega
      cases h2 : lastIndexOf slash (file.take idx) with
      | none =>
        have e2 : lastIndexByte (file.take idx) 47 = -1 := by
          rw [lastIndexByte_eq]; simp [show (47 : UInt8) = slash from rfl, h2]
        simp [TrimmedPath_body, trimmedPath, trimmedFile, fullPath, h1, h2, e1, e2, hfull, hne, hb1, sliceVal_bytes]
      | some idx2 =>
        have e2 : lastIndexByte (file.take idx) 47 = idx2 := by
          rw [lastIndexByte_eq]; simp [show (47 : UInt8) = slash from rfl, h2]
        have hlt2 := lastIndexOf_lt slash (file.take idx) idx2 h2
        have hlt2' : idx2 < idx := by simp at hlt2; omega
        have hne2 : ¬ ((idx2 : Int) = -1) := by omega
        have hw2 : wrap .int ((idx2 : Int) + 1) = ((idx2 + 1 : Nat) : Int) := by rw [wrap_int_id] <;> omega
        have hb2 : (0 : Int) ≤ (idx2 : Int) + 1 ∧ (idx2 : Int) + 1 ≤ file.length := by omega
        have htake : file.take file.length = file := List.take_length
        simp [TrimmedPath_body, trimmedPath, trimmedFile, h1, h2, e1, e2, hne, hne2, hb1, hb2, hw, hw2,
          sliceVal_bytes, htake]

end ZapVerif.C15

/-! ## `stacktrace.Capture` IS the source (table `Gen/TransCapture.lean`)

The body of internal/stacktrace/stack.go `Capture` — the `switch depth`, the first `runtime.Callers`, the doubling loop
`for numFrames == len(pcs)`, the final re-slicing — translated mechanically, is interpreted on EVERY goroutine stack, every
skip and every pooled slab: it stores in `stack.pcs` exactly what `Callers.capture` says (the model `capture_complete`,
`caller_annotation` … are about), never indexes or slices out of range, and the loop terminates.  `runtime.Callers(skip,
pcs)` fills `pcs` with the frames after the first `skip` and returns the count; `make([]uintptr, n)` is `n` zeros. -/
namespace ZapVerif.C15
set_option linter.unusedSimpArgs false
open ZapVerif ZapVerif.GoMini ZapVerif.TransCapture ZapVerif.Gen.TransCapture

/-- the state at the head of the doubling loop: `numFrames`, the local `pcs` -/
def cAbs (skip : Nat) (flds : Env) (a : Nat × List Val) : State :=
  ⟨[("p0", .int skip), ("p1", .int 1), ("l0", .int a.1), ("l1", .list a.2)], flds⟩

theorem callersV_len (st : List Val) (sk : Nat) (pcs : List Val) :
    (callersV st (sk : Int) pcs).2 = (Callers.callers st sk pcs.length).length ∧
    (callersV st (sk : Int) pcs).1.length = pcs.length ∧
    (callersV st (sk : Int) pcs).1.take (Callers.callers st sk pcs.length).length = Callers.callers st sk pcs.length := by
  refine ⟨?_, ?_, ?_⟩
  · simp [callersV, Callers.callers]
  · simp only [callersV, Int.toNat_natCast, List.length_append, List.length_drop, List.length_take]; omega
  · simp [callersV, Callers.callers]

/-- one pass through the loop body: a fresh slice of twice the length, filled by `runtime.Callers` -/
theorem Capture_iter_matches_source (P : Par) (skip : Nat) (flds : Env) (hskip : (skip : Int) + 2 < 9223372036854775808)
    (n : Nat) (l1 : List Val) (hl : (l1.length : Int) * 2 < 9223372036854775808)
    (rec : Stmt → State → GoMini.Out) (k : State → GoMini.Out) :
    (execS (X P) rec Capture_loop0.lbody (cAbs skip flds (n, l1))).loopBody
      (fun σ' => (execS (X P) rec Capture_loop0.lpost σ').loopPost k) =
      k (cAbs skip flds ((callersV P.st ((skip + 2 : Nat) : Int) (List.replicate (l1.length * 2) (Val.int 0))).2,
                         (callersV P.st ((skip + 2 : Nat) : Int) (List.replicate (l1.length * 2) (Val.int 0))).1)) := by
  have hw2 : wrap .int ((skip : Int) + 2) = (skip : Int) + 2 := by rw [wrap_int_id] <;> omega
  have hwm : wrap .int ((l1.length : Int) * 2) = (l1.length : Int) * 2 := by rw [wrap_int_id] <;> omega
  have hz : ext P "make.zeros" [.int ((l1.length : Int) * 2)] = some [.list (List.replicate (l1.length * 2) (.int 0))] := by
    have := ext_zeros P (l1.length * 2); push_cast at this; exact this
  simp [Capture_loop0, Stmt.lbody, Stmt.lpost, cAbs, hwm, hz, hw2]

/-- the doubling loop is `Callers.captureLoop` -/
theorem Capture_loop_matches_source (P : Par) (skip : Nat) (flds : Env) (hst : 2 * (P.st.length : Int) < 9223372036854775808)
    (hskip : (skip : Int) + 2 < 9223372036854775808) (r : List Val) (fuel : Nat) :
    ∀ (fuelM : Nat) (l1 : List Val),
      (l1.length : Int) < 9223372036854775808 →
      l1.take (Callers.callers P.st (skip + 2) l1.length).length = Callers.callers P.st (skip + 2) l1.length →
      Callers.captureLoop P.st (skip + 2) fuelM l1.length = some r →
      ∃ l1' : List Val,
        execS (X P) (exec (X P) (fuel + fuelM)) Capture_loop0
            (cAbs skip flds ((Callers.callers P.st (skip + 2) l1.length).length, l1)) =
          .normal (cAbs skip flds (r.length, l1')) ∧ l1'.take r.length = r ∧ r.length ≤ l1'.length := by
  have hL : Capture_loop0 = .loop Capture_loop0.lcond Capture_loop0.lpost Capture_loop0.lbody := rfl
  have hw2 : wrap .int ((skip : Int) + 2) = ((skip + 2 : Nat) : Int) := by rw [wrap_int_id] <;> omega
  have hcond : ∀ a : Nat × List Val,
      evalE (X P) (cAbs skip flds a) Capture_loop0.lcond = .ok (.bool (decide ((a.1 : Int) = a.2.length))) := by
    intro a; simp [Capture_loop0, Stmt.lcond, cAbs]
  have hexit : ∀ (fuelM : Nat) (l1 : List Val),
      ¬ (Callers.callers P.st (skip + 2) l1.length).length = l1.length →
      l1.take (Callers.callers P.st (skip + 2) l1.length).length = Callers.callers P.st (skip + 2) l1.length →
      ∃ l1' : List Val,
        execS (X P) (exec (X P) (fuel + fuelM)) Capture_loop0
            (cAbs skip flds ((Callers.callers P.st (skip + 2) l1.length).length, l1)) =
          .normal (cAbs skip flds ((Callers.callers P.st (skip + 2) l1.length).length, l1')) ∧
        l1'.take (Callers.callers P.st (skip + 2) l1.length).length = Callers.callers P.st (skip + 2) l1.length ∧
        (Callers.callers P.st (skip + 2) l1.length).length ≤ l1'.length := by
    intro fuelM l1 hne htake
    refine ⟨l1, ?_, htake, ?_⟩
    · rw [hL, execS_loop, hcond]
      have : ¬ (((Callers.callers P.st (skip + 2) l1.length).length : Int) = l1.length) := by omega
      simp [this]
    · simp only [Callers.callers, List.length_take]; omega
  intro fuelM
  induction fuelM with
  | zero =>
    intro l1 hl htake hcl
    simp only [Callers.captureLoop] at hcl
    split at hcl
    · exact absurd hcl (by simp)
    · rename_i hne
      have hr : r = Callers.callers P.st (skip + 2) l1.length := by simpa using hcl.symm
      subst hr
      exact hexit 0 l1 hne htake
  | succ m ih =>
    intro l1 hl htake hcl
    simp only [Callers.captureLoop] at hcl
    split at hcl
    · rename_i heq
      -- one iteration: pcs = make(2·len), numFrames = Callers(skip+2, pcs)
      have hle : l1.length ≤ P.st.length := by
        have := heq; simp only [Callers.callers, List.length_take, List.length_drop] at this; omega
      have hg : Gen.Callers.growFactor * l1.length = l1.length * 2 := by
        simp [Gen.Callers.growFactor]; omega
      rw [hg] at hcl
      have hc := callersV_len P.st (skip + 2) (List.replicate (l1.length * 2) (Val.int 0))
      simp only [List.length_replicate] at hc
      obtain ⟨hc1, hc2, hc3⟩ := hc
      have := ih (callersV P.st ((skip + 2 : Nat) : Int) (List.replicate (l1.length * 2) (Val.int 0))).1
        (by rw [hc2]; push_cast; omega) (by rw [hc2]; exact hc3) (by rw [hc2]; exact hcl)
      rw [hc2] at this
      obtain ⟨l1', hrun, h2, h3⟩ := this
      refine ⟨l1', ?_, h2, h3⟩
      rw [hL, execS_loop, hcond]
      have hq : (((Callers.callers P.st (skip + 2) l1.length).length : Int) = l1.length) := by omega
      simp only [hq, decide_true, Res.out, condK]
      rw [← hL]
      have hrec : ∀ σ, exec (X P) (fuel + (m + 1)) Capture_loop0 σ =
          execS (X P) (exec (X P) (fuel + m)) Capture_loop0 σ := fun σ => by rw [← exec_succ]; rfl
      rw [Capture_iter_matches_source P skip flds hskip _ l1 (by omega), hrec, hc1]
      exact hrun
    · rename_i hne
      have hr : r = Callers.callers P.st (skip + 2) l1.length := by simpa using hcl.symm
      subst hr
      exact hexit (m + 1) l1 hne htake

/-- **Capture_matches_source**: whatever `Callers.capture` yields for this stack, skip, depth and slab length is what the
    interpreted `Capture` leaves in `stack.pcs` (and hands to `runtime.CallersFrames`); `storage` ends at least as long. -/
theorem Capture_matches_source (P : Par) (skip : Nat) (full : Bool) (storage : List Val) (pcs0 frames0 self : Val)
    (hslab : 0 < storage.length) (hsl : (storage.length : Int) < 9223372036854775808)
    (hst : 2 * (P.st.length : Int) < 9223372036854775808) (hskip : (skip : Int) + 2 < 9223372036854775808)
    (r : List Val) (hcap : Callers.capture P.st skip full storage.length = some r) (fuel : Nat) :
    ∃ storage' : List Val,
      run (X P) (fuel + P.st.length + 1) "Capture" [.int skip, .int (if full then 1 else 0)]
          (capFld pcs0 storage frames0 self) =
        .done [self] (capFld (.list r) storage' (framesV (.list r)) self) ∧ r.length ≤ storage'.length := by
  have hw2 : wrap .int ((skip : Int) + 2) = (skip : Int) + 2 := by rw [wrap_int_id] <;> omega
  have hfin : ∀ (out : GoMini.Out) (res : List Val) (fl : Env),
      out.fin = some (res, fl) →
      (exec (X P) (fuel + P.st.length + 1) Capture_body
        ⟨[("p0", .int skip), ("p1", .int (if full then 1 else 0))], capFld pcs0 storage frames0 self⟩) = out →
      run (X P) (fuel + P.st.length + 1) "Capture" [.int skip, .int (if full then 1 else 0)]
          (capFld pcs0 storage frames0 self) = .done res fl := by
    intro out res fl h1 h2
    refine run_of_fin (X P) _ _ Gen.TransCapture.Capture [.int skip, .int (if full then 1 else 0)] _ _ _ rfl rfl ?_
    subst h2; exact h1
  cases full with
  | false =>
    have hr : r = Callers.callers P.st (skip + 2) 1 := by
      simpa [Callers.capture, Callers.callers, Gen.Callers.captureCallersOffset] using hcap.symm
    subst hr
    have hone : (1 : Int) ≤ storage.length := by omega
    have hc := callersV_len P.st (skip + 2) (storage.take 1)
    have htl : (storage.take 1).length = 1 := by simp; omega
    have hcast : ((skip + 2 : Nat) : Int) = (skip : Int) + 2 := by push_cast; rfl
    rw [htl, hcast] at hc
    obtain ⟨hc1, hc2, hc3⟩ := hc
    have hle : (Callers.callers P.st (skip + 2) 1).length ≤ 1 := by
      simp only [Callers.callers, List.length_take]; omega
    have hleI : ((Callers.callers P.st (skip + 2) 1).length : Int) ≤ 1 := by exact_mod_cast hle
    refine ⟨storage, hfin _ _ _ ?_ rfl, ?_⟩
    · rw [exec_succ]
      simp [Capture_body, hw2, hone, hc1, hc2, hc3, hle, hleI]
    · simp only [Callers.callers, List.length_take]; omega
  | true =>
    have hcl : Callers.captureLoop P.st (skip + 2) P.st.length storage.length = some r := by
      simpa [Callers.capture, Gen.Callers.captureCallersOffset] using hcap
    have hcast : ((skip + 2 : Nat) : Int) = (skip : Int) + 2 := by push_cast; rfl
    have hc := callersV_len P.st (skip + 2) storage
    rw [hcast] at hc
    obtain ⟨hc1, hc2, hc3⟩ := hc
    obtain ⟨l1', hrun, ht, hlen⟩ := Capture_loop_matches_source P skip
      [("pcs", .list (callersV P.st ((skip : Int) + 2) storage).1), ("storage", .list storage), ("frames", frames0),
        ("self", self)] hst hskip r fuel P.st.length (callersV P.st ((skip : Int) + 2) storage).1
      (by rw [hc2]; exact hsl) (by rw [hc2]; exact hc3) (by rw [hc2]; exact hcl)
    rw [hc2] at hrun
    have hlenI : (r.length : Int) ≤ l1'.length := by exact_mod_cast hlen
    have hrun' : execS (X P) (exec (X P) (fuel + P.st.length)) Capture_loop0
        ⟨[("p0", .int skip), ("p1", .int 1), ("l0", .int (Callers.callers P.st (skip + 2) storage.length).length),
          ("l1", .list (callersV P.st ((skip : Int) + 2) storage).1)],
         [("pcs", .list (callersV P.st ((skip : Int) + 2) storage).1), ("storage", .list storage), ("frames", frames0),
          ("self", self)]⟩ =
        .normal ⟨[("p0", .int skip), ("p1", .int 1), ("l0", .int r.length), ("l1", .list l1')],
         [("pcs", .list (callersV P.st ((skip : Int) + 2) storage).1), ("storage", .list storage), ("frames", frames0),
          ("self", self)]⟩ := by
      simpa [cAbs] using hrun
    refine ⟨l1', hfin _ _ _ ?_ rfl, hlen⟩
    rw [exec_succ]
    simp [Capture_body, hw2, hc1, hrun', hlenI, ht]

/-- with `capture_full`: `Capture(skip, Full)` stores EVERY frame from the requested one outward, whatever the depth of
    the stack and the size of the pooled slab (the loop terminates and nothing is truncated) -/
theorem Capture_full_matches_source (P : Par) (skip : Nat) (storage : List Val) (pcs0 frames0 self : Val)
    (hslab : 0 < storage.length) (hsl : (storage.length : Int) < 9223372036854775808)
    (hst : 2 * (P.st.length : Int) < 9223372036854775808) (hskip : (skip : Int) + 2 < 9223372036854775808) (fuel : Nat) :
    ∃ storage' : List Val,
      run (X P) (fuel + P.st.length + 1) "Capture" [.int skip, .int 1] (capFld pcs0 storage frames0 self) =
        .done [self] (capFld (.list (P.st.drop (skip + 2))) storage' (framesV (.list (P.st.drop (skip + 2)))) self) := by
  have h := Callers.capture_full P.st skip storage.length hslab
  rw [show Gen.Callers.captureCallersOffset = 2 from rfl] at h
  obtain ⟨s', hrun, -⟩ := Capture_matches_source P skip true storage pcs0 frames0 self hslab hsl hst hskip _ h fuel
  exact ⟨s', hrun⟩

end ZapVerif.C15

/-! ## the stack formatter IS the source (translator round 4, table `Gen/TransStackFmt.lean`)

internal/stacktrace `(*Formatter).FormatFrame` and `FormatStack`, translated mechanically; the `*Stack` is the iterator
value and `runtime.Frames.Next` an intrinsic on it.  `FormatStack_matches_source`: exactly `Callers.formatStack frames`
(all frames but the trailing runtime frame) are written, in order, each as `function\n\tfile:line`, separated by newlines. -/
set_option linter.unusedSimpArgs false
namespace ZapVerif.C15
open ZapVerif ZapVerif.GoMini ZapVerif.TransStackFmt ZapVerif.Gen.TransStackFmt

/-- `FormatFrame`: a newline unless this is the first frame, then `function\n\tfile:line`; `nonEmpty` set -/
theorem FormatFrame_exec_matches_source (f : FrameD) (b : Bytes) (ne : Bool) (hl : (f.line : Int) < 9223372036854775808) (fuel : Nat) :
    (exec X (fuel + 1) FormatFrame_body ⟨[("p0", encF f)], fEnv b ne⟩).fin = some ([], fEnv (stepF b ne f) true) := by
  rw [exec_succ]
  have hw : wrap .i64 (f.line : Int) = f.line := by rw [wrap_i64_id] <;> omega
  cases ne <;> simp [FormatFrame_body, fEnv, encF, stepF, hw, List.append_assoc]

theorem FormatFrame_matches_source (f : FrameD) (b : Bytes) (ne : Bool) (hl : (f.line : Int) < 9223372036854775808) (fuel : Nat) :
    run X (fuel + 1) "FormatFrame" [encF f] (fEnv b ne) = .done [] (fEnv (stepF b ne f) true) :=
  run_of_fin X _ _ Gen.TransStackFmt.FormatFrame _ _ _ _ rfl rfl (FormatFrame_exec_matches_source f b ne hl fuel)

/-- the loop of `FormatStack`: the frame in hand is formatted only while MORE follow -/
theorem FormatStack_loop_matches_source : ∀ (rest : List FrameD) (cur : Val) (curD : FrameD) (b : Bytes) (ne : Bool) (fuel : Nat),
    cur = encF curD → (∀ f ∈ curD :: rest, (f.line : Int) < 9223372036854775808) →
    ∃ l, execS X (exec X (fuel + rest.length + 1)) FormatStack_loop0
        ⟨[("p0", .list (rest.map encF)), ("l0", cur), ("l1", .bool (!rest.isEmpty))], fEnv b ne⟩ =
      .normal ⟨l, fEnv (fmtAll b ne (curD :: rest).dropLast).1 (fmtAll b ne (curD :: rest).dropLast).2⟩
  | [], cur, curD, b, ne, fuel, _, _ => by
    refine ⟨[("p0", .list []), ("l0", cur), ("l1", .bool false)], ?_⟩
    unfold FormatStack_loop0
    rw [execS_loop]
    simp [fmtAll]
  | r0 :: rest, cur, curD, b, ne, fuel, hc, hl => by
    obtain ⟨l, ih⟩ := FormatStack_loop_matches_source rest (encF r0) r0 (stepF b ne curD) true fuel rfl
      (fun f hf => hl f (List.mem_cons_of_mem _ hf))
    refine ⟨l, ?_⟩
    have hcall : ∀ σ : State, retK σ [] "FormatFrame"
        (exec X (fuel + rest.length + 1 + 1) FormatFrame_body ⟨[("p0", encF curD)], fEnv b ne⟩) = _ :=
      fun σ => retK_of_fin0 σ _ _ _ (FormatFrame_exec_matches_source curD b ne (hl curD (List.mem_cons_self ..)) _)
    have hdl : (curD :: r0 :: rest).dropLast = curD :: (r0 :: rest).dropLast := rfl
    subst hc
    unfold FormatStack_loop0 at ih ⊢
    rw [execS_loop]
    simp only [List.length_cons, show fuel + (rest.length + 1) + 1 = fuel + rest.length + 1 + 1 by omega]
    simp [hcall, hdl, fmtAll]
    rw [exec_succ]
    simpa [fmtAll] using ih


/-- `FormatStack`: every frame the iterator returns with "more follow" is formatted, in order — i.e. all frames but the
    LAST (`Callers.formatStack`, the function of `last_runtime_frame_dropped`): the trailing runtime frame is dropped,
    and an empty iterator formats nothing -/
theorem FormatStack_matches_source (frames : List FrameD) (b : Bytes) (ne : Bool)
    (hl : ∀ f ∈ frames, (f.line : Int) < 9223372036854775808) (fuel : Nat) :
    run X (fuel + frames.length + 1) "FormatStack" [.list (frames.map encF)] (fEnv b ne) =
      .done [] (fEnv (fmtAll b ne (Callers.formatStack frames)).1 (fmtAll b ne (Callers.formatStack frames)).2) := by
  apply run_of_fin X _ _ Gen.TransStackFmt.FormatStack _ _ _ _ rfl rfl
  cases frames with
  | nil =>
    rw [exec_succ]
    have : FormatStack_loop0 = .loop (.loc "l1") FormatStack_loop0.lpost FormatStack_loop0.lbody := rfl
    simp only [FormatStack_body_eq, FormatStack_body, execS_seq]
    rw [this]
    simp [execS_loop, Callers.formatStack, fmtAll, zeroFrame]
  | cons f r =>
    obtain ⟨l, h⟩ := FormatStack_loop_matches_source r (encF f) f b ne fuel rfl hl
    simp only [List.length_cons, show fuel + (r.length + 1) + 1 = (fuel + r.length + 1) + 1 by omega]
    rw [exec_succ]
    simp only [FormatStack_body_eq, FormatStack_params_eq, FormatStack_named_eq, FormatStack_body, execS_seq]
    simp [h, Callers.formatStack]

end ZapVerif.C15
