import ZapVerif.Model.Console
import ZapVerif.Proofs.EntryWF
import ZapVerif.Proofs.Spaced
import ZapVerif.Gen.EntryMeta
import ZapVerif.Proofs.SubEnc
import ZapVerif.Proofs.TransConsoleLink
/-! # C16 — console encoder lines have the documented shape with a valid JSON context -/
namespace ZapVerif.C16
open ZapVerif ZapVerif.Esc ZapVerif.Json ZapVerif.Enc ZapVerif.Entry ZapVerif.Console

/-- the documented shape: present columns in the fixed order time, level, name, caller, function, joined by the
    separator; then (separator if anything precedes) the message iff its key is set; then (separator if anything
    precedes) the context object iff it is non-empty; then a newline and the stack iff key ∧ stack ≠ ""; then the
    line ending.  All 2^7 presence patterns are instances. -/
theorem console_shape (c : Cfg) (sepRaw : Bytes) (e : Ent) (k : Cols) (ctx : List (List Field)) (fields : List Field) :
    ∃ sepc cols msgPart ctxPart stackPart,
      consoleLine c sepRaw e k ctx fields = joinSep sepc cols ++ msgPart ++ ctxPart ++ stackPart ++ c.ending ∧
      sepc = (if sepRaw.isEmpty then [9] else sepRaw) ∧
      cols = columns c e k ∧
      msgPart = (if !c.messageKey.isEmpty then (if (joinSep sepc cols).isEmpty then [] else sepc) ++ e.message else []) ∧
      ctxPart = (if (contextBytes ctx fields).isEmpty then []
                 else (if (joinSep sepc cols ++ msgPart).isEmpty then [] else sepc) ++ 123 :: (contextBytes ctx fields ++ [125])) ∧
      stackPart = (if !e.stack.isEmpty && !c.stacktraceKey.isEmpty then 10 :: e.stack else []) := by
  refine ⟨_, _, _, _, _, ?_, rfl, rfl, rfl, rfl, rfl⟩
  unfold consoleLine sepIf
  simp only []
  by_cases hm : c.messageKey.isEmpty <;> by_cases hc : (contextBytes ctx fields).isEmpty <;>
    by_cases hs : (!e.stack.isEmpty && !c.stacktraceKey.isEmpty) <;>
    by_cases h1 : (joinSep (if sepRaw.isEmpty then [9] else sepRaw) (columns c e k)).isEmpty <;>
    simp [hm, hc, hs, h1, List.append_assoc] <;>
    (try (by_cases h2 : e.message.isEmpty <;> simp_all [List.append_assoc]))

/-- the columns are a sub-list of [time, level, name, caller, function] in that order, each present exactly when
    its key is set, the entry carries a value for it, and its encoder appended something -/
theorem columns_order (c : Cfg) (e : Ent) (k : Cols) :
    columns c e k =
      (if !c.timeKey.isEmpty && e.time.isSome then optL k.time else []) ++
      (if !c.levelKey.isEmpty then optL k.level else []) ++
      (if !e.name.isEmpty && !c.nameKey.isEmpty then optL k.name else []) ++
      (if e.callerDefined then
         (if !c.callerKey.isEmpty then optL k.caller else []) ++ (if !c.functionKey.isEmpty then [e.function] else [])
       else []) := rfl

/-- the context is produced by the SAME machine as the JSON encoder (spaced mode) from the SAME calls — context
    fields then call-site fields — and equals their compositional spaced output plus the closing braces owed -/
theorem ctx_is_json_ctx (ctx : List (List Field)) (fields : List Field)
    (hc : ∀ fs ∈ ctx, ∀ f ∈ fs, FieldOK f) (hf : ∀ f ∈ fields, FieldOK f) :
    contextBytes ctx fields =
      (outO true true (ctx.flatMap addFields ++ addFields fields)).1 ++
        List.replicate (outO true true (ctx.flatMap addFields ++ addFields fields)).2 125 := by
  unfold contextBytes ctxEnc ctxOf
  simp only []
  rw [← runO_append]
  rw [runO_eq true _ [] 0 true (Or.inl ⟨rfl, rfl⟩) (WFo_append _ _ (ctx_good ctx hc).1 (addFields_good fields hf).1)]
  simp

mutual
/-- spaced and compact output leave the same namespaces open: they differ only in the blanks after `,` and `:` -/
theorem spaced_same_nesting : ∀ (calls : List OC) (f : Bool), (outO true f calls).2 = (outO false f calls).2
  | [], _ => by simp [outO]
  | OC.prim _ _ :: r, f => by simp only [outO]; exact spaced_same_nesting r false
  | OC.ns _ :: r, f => by simp only [outO]; rw [spaced_same_nesting r true]
  | OC.obj _ _ :: r, f => by simp only [outO]; exact spaced_same_nesting r false
  | OC.arr _ _ :: r, f => by simp only [outO]; exact spaced_same_nesting r false
end

/-- the compact rendering of those same calls is the object the JSON encoder emits for the fields (C02) -/
theorem ctx_compact_is_tree (ctx : List (List Field)) (fields : List Field) :
    (outO false true (ctx.flatMap addFields ++ addFields fields)).1 ++
      List.replicate (outO false true (ctx.flatMap addFields ++ addFields fields)).2 125 =
    memOut true (denO (ctx.flatMap addFields ++ addFields fields)) := outO_den _ true

/-- the context object is valid JSON and holds exactly the fields the JSON encoder emits: reading
    `{` context `}` back (one optional blank after `,` and `:`) yields the tree `denO` of the same calls — the
    tree C02 proves the JSON encoder's line decodes to for its fields part — in order, at the same nesting -/
theorem ctx_valid (ctx : List (List Field)) (fields : List Field)
    (hc : ∀ fs ∈ ctx, ∀ f ∈ fs, FieldOK f) (hf : ∀ f ∈ fields, FieldOK f) :
    parseV (sizeT (T.obj (denTO (ctx.flatMap addFields ++ addFields fields))))
        (123 :: (contextBytes ctx fields ++ [125])) =
      some (J.obj (denO (ctx.flatMap addFields ++ addFields fields)), []) := by
  rw [ctx_is_json_ctx ctx fields hc hf]
  exact spaced_object_parses _ (WFo_append _ _ (ctx_good ctx hc).1 (addFields_good fields hf).1)

/-- the guard structure of `consoleEncoder.EncodeEntry` / `writeContext` that `columns` and `consoleLine` mirror
    (re-read from zapcore/console_encoder.go on every run) -/
def expectedConsoleEntryGuards : List String := [
  "0:c.TimeKey != \"\" && c.EncodeTime != nil && !ent.Time.IsZero()",
  "0:c.LevelKey != \"\" && c.EncodeLevel != nil",
  "0:ent.LoggerName != \"\" && c.NameKey != \"\"",
  "1:nameEncoder == nil",
  "0:ent.Caller.Defined",
  "1:c.CallerKey != \"\" && c.EncodeCaller != nil",
  "1:c.FunctionKey != \"\"",
  "0:range arr.elems",
  "1:i > 0",
  "0:c.MessageKey != \"\"",
  "0:ent.Stack != \"\" && c.StacktraceKey != \"\""
]

theorem console_guards_as_modelled :
    Gen.consoleEntryGuards = expectedConsoleEntryGuards ∧ Gen.consoleContextGuards = ["0:context.buf.Len() == 0"] := by
  decide

/-- non-vacuity: a line with two columns, a message and one field -/
example :
    consoleLine ⟨[109], [108], [], [], [], [], [], [], false⟩ [] ⟨0, .noop, none, [], .noop, false, .noop, [], [], [104, 105], []⟩
      ⟨none, some [73, 78, 70, 79], none, none⟩ [] [.prim [107] (.scalar (.int 1))] =
    [73, 78, 70, 79, 9, 104, 105, 9, 123, 34, 107, 34, 58, 32, 49, 125, 10] := by decide +kernel

/-! ------------------------------------------------------------------------------------------------------------------
## built-in sub-encoders (BEGIN block `subenc`; model `Model/SubEnc.lean`, lemmas `Proofs/SubEnc.lean`)

The column texts of the built-in exact encoders are computed by the model (`SubEnc.colOf` of the computed result:
`fmt.Fprint` of the one string / int64 the function appended), no longer supplied by the harness. -/
section SubEncoders
open ZapVerif.SubEnc

/-- the columns of an entry under built-in exact encoders -/
def builtinCols (lk : LvlEnc) (ck : CallerEnc) (level : Int) (timeC : Option Bytes) (name : Bytes)
    (defined : Bool) (file : Bytes) (line : Int) : Cols :=
  ⟨timeC, colOf (lvlRes (some lk) .noop level) none, colOf (nameRes true .noop name) none,
   colOf (callerRes (some ck) .noop defined file line) none⟩

/-- console columns under the built-in encoders: the level column is exactly the level encoder's text (table text, or
    the table text inside the colour escape), the name column the logger name, the caller column `file:line` with the
    documented trimming; each present under the documented condition, in the documented order -/
theorem console_builtin_columns (c : Cfg) (lk : LvlEnc) (ck : CallerEnc) (level : Int) (time : Option TimeV)
    (timeC : Option Bytes) (name : Bytes) (file : Bytes) (line : Int) (function message stack : Bytes) :
    columns c (builtinEnt lk ck level time name true file line function message stack)
        (builtinCols lk ck level timeC name true file line) =
      (if !c.timeKey.isEmpty && time.isSome then optL timeC else []) ++
      (if !c.levelKey.isEmpty then [levelText lk level] else []) ++
      (if !name.isEmpty && !c.nameKey.isEmpty then [name] else []) ++
      ((if !c.callerKey.isEmpty then [callerText ck true file line] else []) ++
       (if !c.functionKey.isEmpty then [function] else [])) := by
  simp [columns, builtinEnt, builtinCols, colOf, colText, lvlRes, nameRes, nameFull, callerRes, optL]

/-- `EpochNanosTimeEncoder` column: the decimal of UnixNano -/
theorem console_nanos_column (o : SubRes) (n : Int) : colOf (timeRes true o n) none = some (fmtInt n) := rfl

/-- the level column determines the level (all 256 values, every level encoder) -/
theorem console_level_column_injective (k : LvlEnc) :
    ∀ a ∈ allLevels, ∀ b ∈ allLevels, colOf (lvlRes (some k) .noop a) none = colOf (lvlRes (some k) .noop b) none → a = b := by
  intro a ha b hb h
  simp only [colOf, lvlRes, colText, Option.orElse, Option.some.injEq] at h
  exact levelText_inj k a ha b hb h

/-- non-vacuity: coloured capital level, short caller -/
example :
    consoleLine ⟨[109], [108], [], [], [99], [], [], [], false⟩ []
      (builtinEnt .capitalColor .short 1 none [] true [97, 47, 98, 47, 99] 7 [] [104, 105] [])
      (builtinCols .capitalColor .short 1 none [] true [97, 47, 98, 47, 99] 7) [] [] =
    [27, 91, 51, 51, 109, 87, 65, 82, 78, 27, 91, 48, 109, 9, 98, 47, 99, 58, 55, 9, 104, 105, 10] := by decide +kernel

end SubEncoders
/-! ## (END block `subenc`) -/

end ZapVerif.C16

/-! ## the console encoder IS the source (table `Gen/TransConsole.lean`)

`addSeparatorIfNecessary`, `writeContext` and `EncodeEntry` of zapcore/console_encoder.go, translated mechanically, are
interpreted for EVERY configuration, entry, accumulated context and every behaviour of the sub-encoders and of
`addFields` (parameters):

* `addSeparatorIfNecessary` is `Console.sepIf`: the separator iff the line is non-empty — whatever the line ends with;
* `writeContext` clones the logger's JSON encoder (the accumulated context is COPIED, the logger's encoder is only
  read), adds the call-site fields, closes the namespaces, and writes `{…}` after a separator exactly when the text is
  non-empty; the scratch buffer is freed and the clone put back AFTER the text was copied, on both paths;
* `EncodeEntry` prints the columns the sub-encoders appended — time, level, name, caller (only with a key AND an
  encoder), function (with a key, whatever the caller encoder is) — joined by the separator, then message, context,
  stack, line ending: `TransConsole.consoleBytes`, which is `Console.consoleLine` (`consoleBytes_is_consoleLine`). -/
namespace ZapVerif.C16
set_option linter.unusedSimpArgs false
open ZapVerif ZapVerif.GoMini ZapVerif.TransConsole ZapVerif.Gen.TransConsole
open ZapVerif.TransJsonEnc (St closeNs ECfg EEnt)

theorem addSeparatorIfNecessary_exec_matches_source (P : Par) (sepc line : Bytes) (fl : Env)
    (hfl : Env.get "consoleSep" fl = some (.bytes sepc)) (fuel : Nat) :
    (exec (X P) (fuel + 1) addSeparatorIfNecessary_body ⟨[("p0", .bytes line)], fl⟩).fin =
      some ([.bytes (sepIf sepc line)], fl) := by
  rw [exec_succ]
  cases line with
  | nil => simp [addSeparatorIfNecessary_body, sepIf]
  | cons x xs =>
    have hpos : (0 : Int) < (xs.length : Int) + 1 := by omega
    have hne : ¬ ((xs.length : Int) + 1 = 0) := by omega
    simp [addSeparatorIfNecessary_body, sepIf, hpos, hne, hfl]

/-- `addSeparatorIfNecessary(line)`: the separator iff the line is not empty -/
theorem addSeparatorIfNecessary_matches_source (P : Par) (c : ECfg) (sepc line : Bytes) (b : Bytes) (sp : Bool) (ns : Int)
    (rb re : List Val) (obuf : Bytes) (osp : Bool) (ons : Int) (self : Val) (ev : List Val) (fuel : Nat) :
    run (X P) (fuel + 1) "addSeparatorIfNecessary" [.bytes line] (conFld c sepc b sp ns rb re obuf osp ons self ev) =
      .done [.bytes (sepIf sepc line)] (conFld c sepc b sp ns rb re obuf osp ons self ev) :=
  run_of_fin (X P) _ _ Gen.TransConsole.addSeparatorIfNecessary [.bytes line] _ _ _ rfl rfl
    (addSeparatorIfNecessary_exec_matches_source P sepc line _ rfl fuel)

/-- the recorded calls of `writeContext`: the clone first; `context.buf.Free()` and `putJSONEncoder(context)` last -/
def writeContextEv (P : Par) (obuf : Bytes) (osp : Bool) (ons : Int) (extra self : Val) : List Val :=
  [.list [TransConsole.nm "jsonEncoder.Clone", .bytes obuf, .bool osp, .int ons],
   .list [TransConsole.nm "Buffer.Free", .bytes (ctxBytes P obuf osp ons extra)],
   .list [TransConsole.nm "putJSONEncoder", .list (ctxSt P obuf osp ons extra).rbuf, self]]

theorem writeContext_exec_matches_source (P : Par) (c : ECfg) (sepc line : Bytes) (extra : Val) (b : Bytes) (sp : Bool)
    (ns : Int) (rb re : List Val) (obuf : Bytes) (osp : Bool) (ons : Int) (self : Val) (ev : List Val) (fuel : Nat) :
    (exec (X P) (fuel + 2) writeContext_body
        ⟨[("p0", .bytes line), ("p1", extra)], conFld c sepc b sp ns rb re obuf osp ons self ev⟩).fin =
      some ([.bytes (writeContextSpec P sepc obuf osp ons extra line)],
        conFld c sepc (ctxBytes P obuf osp ons extra) osp 0 (ctxSt P obuf osp ons extra).rbuf (ctxSt P obuf osp ons extra).renc
          obuf osp ons self (ev ++ writeContextEv P obuf osp ons extra self)) := by
  have hsep : ∀ (σ : State) (fl : Env), Env.get "consoleSep" fl = some (.bytes sepc) →
      retK σ [.loc "p0"] "addSeparatorIfNecessary"
        (exec (X P) (fuel + 1) addSeparatorIfNecessary_body ⟨[("p0", .bytes line)], fl⟩) =
        .normal (({ σ with fld := fl } : State).assign1 (.loc "p0") (.bytes (sepIf sepc line))) :=
    fun σ fl hfl => retK_of_fin1 σ _ _ _ _ _ (addSeparatorIfNecessary_exec_matches_source P sepc line fl hfl fuel)
  rw [exec_succ]
  by_cases he : (ctxBytes P obuf osp ons extra).isEmpty
  · have he' : ctxBytes P obuf osp ons extra = [] := by simpa using he
    have he2 : closeNs (P.addFields extra osp ⟨obuf, ons, [], []⟩).buf (P.addFields extra osp ⟨obuf, ons, [], []⟩).ns = [] := he'
    simp [writeContext_body, writeContextSpec, writeContextEv, ctxSt, he, he', he2, nm_Clone, nm_free, nm_put,
      List.append_assoc]
  · have hne : ¬ closeNs (P.addFields extra osp ⟨obuf, ons, [], []⟩).buf (P.addFields extra osp ⟨obuf, ons, [], []⟩).ns = [] := by
      intro h; apply he; unfold ctxBytes ctxSt; rw [h]; rfl
    simp [writeContext_body, writeContextSpec, writeContextEv, ctxBytes, ctxSt, he, hne, nm_Clone, nm_free, nm_put,
      List.append_assoc, hsep, Env.get, State.assign1]

/-- `writeContext(line, extra)`: the line afterwards is `writeContextSpec`; the clone is made first, its buffer freed
    and the encoder put back last — on the early return too -/
theorem writeContext_matches_source (P : Par) (c : ECfg) (sepc line : Bytes) (extra : Val) (b : Bytes) (sp : Bool)
    (ns : Int) (rb re : List Val) (obuf : Bytes) (osp : Bool) (ons : Int) (self : Val) (ev : List Val) (fuel : Nat) :
    run (X P) (fuel + 2) "writeContext" [.bytes line, extra] (conFld c sepc b sp ns rb re obuf osp ons self ev) =
      .done [.bytes (writeContextSpec P sepc obuf osp ons extra line)]
        (conFld c sepc (ctxBytes P obuf osp ons extra) osp 0 (ctxSt P obuf osp ons extra).rbuf (ctxSt P obuf osp ons extra).renc
          obuf osp ons self (ev ++ writeContextEv P obuf osp ons extra self)) :=
  run_of_fin (X P) _ _ Gen.TransConsole.writeContext [.bytes line, extra] _ _ _ rfl rfl
    (writeContext_exec_matches_source P c sepc line extra b sp ns rb re obuf osp ons self ev fuel)

/-! ### `EncodeEntry`, statement by statement -/

/-- the k-th top-level statement of the body -/
def ceStmt : Nat → Stmt → Stmt
  | 0, s => s.hd
  | k + 1, s => ceStmt k s.tl

section blocks
variable (P : Par) (c : ECfg) (sepc : Bytes) (e : EEnt) (fields : Val) (b : Bytes) (sp : Bool) (ns : Int) (rb re : List Val)
  (obuf : Bytes) (osp : Bool) (ons : Int) (self : Val) (ev : List Val) (rec : Stmt → State → GoMini.Out)

theorem CE_time (line : Bytes) (es : List Val) (j : CJ) :
    execS (X P) rec (ceStmt 2 EncodeEntry_body) ⟨cLoc e fields line es j, conFld c sepc b sp ns rb re obuf osp ons self ev⟩ =
      .normal ⟨cLoc e fields line (timeCol P c e es) j, conFld c sepc b sp ns rb re obuf osp ons self ev⟩ := by
  cases hk : c.timeKey with
  | nil => cases j <;> simp [ceStmt, Stmt.hd, Stmt.tl, EncodeEntry_body, cLoc, CJ.env, timeCol, hk]
  | cons k ks =>
    cases hf : c.encTime with
    | nil => cases j <;> simp [ceStmt, Stmt.hd, Stmt.tl, EncodeEntry_body, cLoc, CJ.env, timeCol, hk, hf]
    | cons f fs =>
      have hpos : ¬ ((fs.length : Int) + 1 = 0) := by omega
      cases hz : P.timeIsZero e.time <;> cases j <;>
        simp [ceStmt, Stmt.hd, Stmt.tl, EncodeEntry_body, cLoc, CJ.env, timeCol, hk, hf, hz, hpos]

theorem CE_level (line : Bytes) (es : List Val) (j : CJ) :
    execS (X P) rec (ceStmt 3 EncodeEntry_body) ⟨cLoc e fields line es j, conFld c sepc b sp ns rb re obuf osp ons self ev⟩ =
      .normal ⟨cLoc e fields line (levelCol P c e es) j, conFld c sepc b sp ns rb re obuf osp ons self ev⟩ := by
  cases hk : c.levelKey with
  | nil => cases j <;> simp [ceStmt, Stmt.hd, Stmt.tl, EncodeEntry_body, cLoc, CJ.env, levelCol, hk]
  | cons k ks =>
    cases hf : c.encLevel with
    | nil => cases j <;> simp [ceStmt, Stmt.hd, Stmt.tl, EncodeEntry_body, cLoc, CJ.env, levelCol, hk, hf]
    | cons f fs =>
      have hpos : ¬ ((fs.length : Int) + 1 = 0) := by omega
      cases j <;> simp [ceStmt, Stmt.hd, Stmt.tl, EncodeEntry_body, cLoc, CJ.env, levelCol, hk, hf, hpos]

theorem CE_name (line : Bytes) (es : List Val) :
    ∃ j', execS (X P) rec (ceStmt 4 EncodeEntry_body) ⟨cLoc e fields line es .n, conFld c sepc b sp ns rb re obuf osp ons self ev⟩ =
      .normal ⟨cLoc e fields line (nameCol P c e es) j', conFld c sepc b sp ns rb re obuf osp ons self ev⟩ ∧
      (j' = .n ∨ ∃ v, j' = .a v) := by
  cases hn : e.name with
  | nil => exact ⟨.n, by simp [ceStmt, Stmt.hd, Stmt.tl, EncodeEntry_body, cLoc, CJ.env, nameCol, hn], .inl rfl⟩
  | cons n0 nr =>
    cases hk : c.nameKey with
    | nil => exact ⟨.n, by simp [ceStmt, Stmt.hd, Stmt.tl, EncodeEntry_body, cLoc, CJ.env, nameCol, hn, hk], .inl rfl⟩
    | cons k ks =>
      cases hf : c.encName with
      | nil =>
        exact ⟨.a (.list [.int 0]), by
          simp [ceStmt, Stmt.hd, Stmt.tl, EncodeEntry_body, cLoc, CJ.env, nameCol, TransJsonEnc.nameFn, hn, hk, hf], .inr ⟨_, rfl⟩⟩
      | cons f fs =>
        have hpos : ¬ ((fs.length : Int) + 1 = 0) := by omega
        exact ⟨.a (.list (f :: fs)), by
          simp [ceStmt, Stmt.hd, Stmt.tl, EncodeEntry_body, cLoc, CJ.env, nameCol, TransJsonEnc.nameFn, hn, hk, hf, hpos],
          .inr ⟨_, rfl⟩⟩

/-- caller: only with a key AND an encoder; function: with a key, whatever the caller encoder is -/
theorem CE_caller (line : Bytes) (es : List Val) (j : CJ) :
    execS (X P) rec (ceStmt 5 EncodeEntry_body) ⟨cLoc e fields line es j, conFld c sepc b sp ns rb re obuf osp ons self ev⟩ =
      .normal ⟨cLoc e fields line (callerCol P c e es) j, conFld c sepc b sp ns rb re obuf osp ons self ev⟩ := by
  cases hd : e.callerDefined with
  | false => cases j <;> simp [ceStmt, Stmt.hd, Stmt.tl, EncodeEntry_body, cLoc, CJ.env, callerCol, hd]
  | true =>
    cases hk : c.callerKey with
    | nil =>
      cases hfk : c.functionKey <;> cases j <;>
        simp [ceStmt, Stmt.hd, Stmt.tl, EncodeEntry_body, cLoc, CJ.env, callerCol, hd, hk, hfk]
    | cons k ks =>
      cases hf : c.encCaller with
      | nil =>
        cases hfk : c.functionKey <;> cases j <;>
          simp [ceStmt, Stmt.hd, Stmt.tl, EncodeEntry_body, cLoc, CJ.env, callerCol, hd, hk, hf, hfk]
      | cons f fs =>
        have hpos : ¬ ((fs.length : Int) + 1 = 0) := by omega
        cases hfk : c.functionKey <;> cases j <;>
          simp [ceStmt, Stmt.hd, Stmt.tl, EncodeEntry_body, cLoc, CJ.env, callerCol, hd, hk, hf, hfk, hpos]

/-- the printing loop: every element the sub-encoders appended, in order, joined by the separator -/
theorem CE_print (line : Bytes) (es : List Val) (j : CJ) :
    ∃ j', execS (X P) rec (ceStmt 6 EncodeEntry_body) ⟨cLoc e fields line es j, conFld c sepc b sp ns rb re obuf osp ons self ev⟩ =
      .normal ⟨cLoc e fields (joinCols P sepc line es.zipIdx) es j', conFld c sepc b sp ns rb re obuf osp ons self ev⟩ := by
  have hs : ceStmt 6 EncodeEntry_body = EncodeEntry_loop0 := rfl
  have hstep : ∀ (a : Bytes × CJ) (i : Nat) (y : Val), es[i]? = some y →
      execS (X P) rec EncodeEntry_loop0.rbody
        (((⟨cLoc e fields a.1 es a.2, conFld c sepc b sp ns rb re obuf osp ons self ev⟩ : State).assign1 (.loc "l3") (.int i)).assign1
          .blank ((fun v : Val => v) y)) =
      .normal ⟨cLoc e fields (printStep P sepc a i y).1 es (printStep P sepc a i y).2,
        conFld c sepc b sp ns rb re obuf osp ons self ev⟩ := by
    intro a i y hy
    obtain ⟨l, jj⟩ := a
    have hidx := indexVal_list_get es i y hy
    by_cases hi : i = 0
    · subst hi
      have hidx : indexVal (.list es) (.int 0) = .ok y := by simpa using hidx
      cases jj <;> simp [EncodeEntry_loop0, Stmt.rbody, cLoc, CJ.env, CJ.setB, printStep, State.assign1, Env.set, hidx]
    · have hp : (0 : Int) < (i : Int) := by omega
      have hp' : 0 < i := by omega
      cases jj <;> simp [EncodeEntry_loop0, Stmt.rbody, cLoc, CJ.env, CJ.setB, printStep, State.assign1, Env.set, hidx, hp, hp']
  have hfold := rangeRun_fold_at (execS (X P) rec EncodeEntry_loop0.rbody) (.loc "l3") .blank
    (fun a : Bytes × CJ => (⟨cLoc e fields a.1 es a.2, conFld c sepc b sp ns rb re obuf osp ons self ev⟩ : State))
    (fun v : Val => v) (printStep P sepc) es hstep es 0 (line, j) rfl
  refine ⟨((es.zipIdx 0).foldl (fun a p => printStep P sepc a p.2 p.1) (line, j)).2, ?_⟩
  rw [hs]
  have hL : EncodeEntry_loop0 = .range (.loc "l3") .blank (.index (.loc "l1") (.lit (.int 0))) EncodeEntry_loop0.rbody := rfl
  rw [hL, execS_range]
  have hev : evalE (X P) ⟨cLoc e fields line es j, conFld c sepc b sp ns rb re obuf osp ons self ev⟩
      (.index (.loc "l1") (.lit (.int 0))) = .ok (.list es) := by
    cases j <;> simp [cLoc, CJ.env]
  rw [hev]
  simp only [Res.out, List.map_id'] at hfold ⊢
  rw [hfold, ← printFold_fst P sepc (es.zipIdx 0) (line, j)]

theorem CE_putSlice (line : Bytes) (es : List Val) (j : CJ) :
    execS (X P) rec (ceStmt 7 EncodeEntry_body) ⟨cLoc e fields line es j, conFld c sepc b sp ns rb re obuf osp ons self ev⟩ =
      .normal ⟨cLoc e fields line es j, conFld c sepc b sp ns rb re obuf osp ons self
        (ev ++ [.list [TransConsole.nm "putSliceEncoder", arrV es]])⟩ := by
  cases j <;> simp [ceStmt, Stmt.hd, Stmt.tl, EncodeEntry_body, cLoc, CJ.env, nm_putSlice]

theorem CE_message (line : Bytes) (es : List Val) (j : CJ) (fuel : Nat) (hrec : rec = exec (X P) (fuel + 1)) :
    execS (X P) rec (ceStmt 8 EncodeEntry_body) ⟨cLoc e fields line es j, conFld c sepc b sp ns rb re obuf osp ons self ev⟩ =
      .normal ⟨cLoc e fields (messageLine c sepc e line) es j, conFld c sepc b sp ns rb re obuf osp ons self ev⟩ := by
  subst hrec
  have hsep : ∀ (σ : State) (fl : Env), Env.get "consoleSep" fl = some (.bytes sepc) →
      retK σ [.loc "l0"] "addSeparatorIfNecessary"
        (exec (X P) (fuel + 1) addSeparatorIfNecessary_body ⟨[("p0", .bytes line)], fl⟩) =
        .normal (({ σ with fld := fl } : State).assign1 (.loc "l0") (.bytes (sepIf sepc line))) :=
    fun σ fl hfl => retK_of_fin1 σ _ _ _ _ _ (addSeparatorIfNecessary_exec_matches_source P sepc line fl hfl fuel)
  cases hk : c.messageKey with
  | nil => cases j <;> simp [ceStmt, Stmt.hd, Stmt.tl, EncodeEntry_body, cLoc, CJ.env, messageLine, hk]
  | cons k ks =>
    cases j <;>
      simp [ceStmt, Stmt.hd, Stmt.tl, EncodeEntry_body, cLoc, CJ.env, messageLine, hk, hsep, Env.get, State.assign1, Env.set]

theorem CE_context (line : Bytes) (es : List Val) (j : CJ) (fuel : Nat) (hrec : rec = exec (X P) (fuel + 2)) :
    execS (X P) rec (ceStmt 9 EncodeEntry_body) ⟨cLoc e fields line es j, conFld c sepc b sp ns rb re obuf osp ons self ev⟩ =
      .normal ⟨cLoc e fields (writeContextSpec P sepc obuf osp ons fields line) es j,
        conFld c sepc (ctxBytes P obuf osp ons fields) osp 0 (ctxSt P obuf osp ons fields).rbuf (ctxSt P obuf osp ons fields).renc
          obuf osp ons self (ev ++ writeContextEv P obuf osp ons fields self)⟩ := by
  subst hrec
  have hcall : ∀ σ : State, retK σ [.loc "l0"] "writeContext"
      (exec (X P) (fuel + 2) writeContext_body
        ⟨[("p0", .bytes line), ("p1", fields)], conFld c sepc b sp ns rb re obuf osp ons self ev⟩) = _ :=
    fun σ => retK_of_fin1 σ _ _ _ _ _ (writeContext_exec_matches_source P c sepc line fields b sp ns rb re obuf osp ons self ev fuel)
  cases j <;> simp [ceStmt, Stmt.hd, Stmt.tl, EncodeEntry_body, cLoc, CJ.env, hcall, State.assign1, Env.set]

/-- stack (after a newline, only with a key), line ending, `return line, nil` -/
theorem CE_tail (line : Bytes) (es : List Val) (j : CJ) :
    execS (X P) rec (EncodeEntry_body.tl.tl.tl.tl.tl.tl.tl.tl.tl.tl) ⟨cLoc e fields line es j, conFld c sepc b sp ns rb re obuf osp ons self ev⟩ =
      .ret [.bytes (stackLine c e line ++ c.lineEnding), .list []]
        ⟨cLoc e fields (stackLine c e line ++ c.lineEnding) es j, conFld c sepc b sp ns rb re obuf osp ons self ev⟩ := by
  cases hs : e.stack <;> cases hk : c.stacktraceKey <;> cases j <;>
    simp [Stmt.tl, EncodeEntry_body, cLoc, CJ.env, stackLine, hs, hk]

theorem CE_get :
    execS (X P) rec (ceStmt 0 EncodeEntry_body)
        ⟨[("p0", e.val), ("p1", fields)], conFld c sepc b sp ns rb re obuf osp ons self ev⟩ =
      .normal ⟨[("p0", e.val), ("p1", fields), ("l0", .bytes [])], conFld c sepc b sp ns rb re obuf osp ons self
        (ev ++ [.list [TransConsole.nm "bufferpool.Get"]])⟩ := by
  simp [ceStmt, Stmt.hd, Stmt.tl, EncodeEntry_body, nm_get]

theorem CE_getSlice :
    execS (X P) rec (ceStmt 1 EncodeEntry_body)
        ⟨[("p0", e.val), ("p1", fields), ("l0", .bytes [])], conFld c sepc b sp ns rb re obuf osp ons self ev⟩ =
      .normal ⟨cLoc e fields [] [] .n, conFld c sepc b sp ns rb re obuf osp ons self
        (ev ++ [.list [TransConsole.nm "getSliceEncoder"]])⟩ := by
  simp [ceStmt, Stmt.hd, Stmt.tl, EncodeEntry_body, cLoc, CJ.env, nm_getSlice]

end blocks

/-- **EncodeEntry_matches_source** (console): for every configuration, entry, context and every behaviour of the
    sub-encoders and of `addFields`, the interpreted `EncodeEntry` returns `consoleBytes` and a nil error; the logger's
    own encoder (`o.*`) is unchanged; every pooled object is returned after its last use -/
theorem EncodeEntry_matches_source (P : Par) (c : ECfg) (sepc : Bytes) (e : EEnt) (fields : Val) (b : Bytes) (sp : Bool)
    (ns : Int) (rb re : List Val) (obuf : Bytes) (osp : Bool) (ons : Int) (self : Val) (ev : List Val) (fuel : Nat) :
    run (X P) (fuel + 3) "EncodeEntry" [e.val, fields] (conFld c sepc b sp ns rb re obuf osp ons self ev) =
      .done [.bytes (consoleBytes P c sepc obuf osp ons e fields), .list []]
        (conFld c sepc (ctxBytes P obuf osp ons fields) osp 0 (ctxSt P obuf osp ons fields).rbuf
          (ctxSt P obuf osp ons fields).renc obuf osp ons self
          (ev ++ [.list [TransConsole.nm "bufferpool.Get"], .list [TransConsole.nm "getSliceEncoder"]] ++
            [.list [TransConsole.nm "putSliceEncoder", arrV (elems P c e)]] ++ writeContextEv P obuf osp ons fields self)) := by
  refine run_of_fin (X P) _ _ Gen.TransConsole.EncodeEntry [e.val, fields] _ _ _ rfl rfl ?_
  show (exec (X P) (fuel + 3) EncodeEntry_body ⟨[("p0", e.val), ("p1", fields)], _⟩).fin = _
  rw [exec_succ]
  have hb : EncodeEntry_body =
      .seq (ceStmt 0 EncodeEntry_body) (.seq (ceStmt 1 EncodeEntry_body) (.seq (ceStmt 2 EncodeEntry_body)
      (.seq (ceStmt 3 EncodeEntry_body) (.seq (ceStmt 4 EncodeEntry_body) (.seq (ceStmt 5 EncodeEntry_body)
      (.seq (ceStmt 6 EncodeEntry_body) (.seq (ceStmt 7 EncodeEntry_body) (.seq (ceStmt 8 EncodeEntry_body)
      (.seq (ceStmt 9 EncodeEntry_body) EncodeEntry_body.tl.tl.tl.tl.tl.tl.tl.tl.tl.tl))))))))) := rfl
  generalize hrec : exec (X P) (fuel + 2) = rec
  rw [hb]
  simp only [execS_seq]
  rw [CE_get]; simp only [Out.andThen_normal, execS_seq]
  rw [CE_getSlice]; simp only [Out.andThen_normal, execS_seq]
  rw [CE_time]; simp only [Out.andThen_normal, execS_seq]
  rw [CE_level]; simp only [Out.andThen_normal, execS_seq]
  obtain ⟨j4, h4, hj4⟩ := CE_name P c sepc e fields b sp ns rb re obuf osp ons self
    (ev ++ [.list [TransConsole.nm "bufferpool.Get"]] ++ [.list [TransConsole.nm "getSliceEncoder"]]) rec []
    (levelCol P c e (timeCol P c e []))
  rw [h4]; simp only [Out.andThen_normal, execS_seq]
  rw [CE_caller]; simp only [Out.andThen_normal, execS_seq]
  obtain ⟨j6, h6⟩ := CE_print P c sepc e fields b sp ns rb re obuf osp ons self
    (ev ++ [.list [TransConsole.nm "bufferpool.Get"]] ++ [.list [TransConsole.nm "getSliceEncoder"]]) rec []
    (callerCol P c e (nameCol P c e (levelCol P c e (timeCol P c e [])))) j4
  rw [h6]; simp only [Out.andThen_normal, execS_seq]
  rw [CE_putSlice]; simp only [Out.andThen_normal, execS_seq]
  rw [CE_message P c sepc e fields b sp ns rb re obuf osp ons self _ rec _ _ _ (fuel + 1) hrec.symm]
  simp only [Out.andThen_normal, execS_seq]
  rw [CE_context P c sepc e fields b sp ns rb re obuf osp ons self _ rec _ _ _ fuel hrec.symm]
  simp only [Out.andThen_normal]
  rw [CE_tail]
  simp [consoleBytes, elems, List.append_assoc]

/-- the line is the model's `Console.consoleLine` — the function `console_line_shape`, `context_is_json` … are stated
    over — whenever the sub-encoders append what the model's `Cols` say and `addFields` does what the model's call trees
    say (`TransConsole.ConsoleLink`, Proofs/TransConsoleLink.lean) -/
theorem EncodeEntry_is_consoleLine (P : Par) (c : ECfg) (e : EEnt) (cfg : Entry.Cfg) (ent : Entry.Ent) (k : Console.Cols)
    (L : ConsoleLink P c e cfg ent k) (sepRaw : Bytes) (ctx : List (List Entry.Field)) (fields : List Entry.Field) (fv : Val)
    (hf : ∀ (b : Bytes) (n : Nat),
      (P.addFields fv true ⟨b, n, [], []⟩).buf = (Enc.runO true ⟨b, n⟩ (Entry.addFields fields)).buf ∧
      (P.addFields fv true ⟨b, n, [], []⟩).ns = ((Enc.runO true ⟨b, n⟩ (Entry.addFields fields)).openNs : Int))
    (b : Bytes) (sp : Bool) (ns : Int) (rb re : List Val) (self : Val) (ev : List Val) (fuel : Nat) :
    ∃ fl, run (X P) (fuel + 3) "EncodeEntry" [e.val, fv]
        (conFld c (if sepRaw.isEmpty then [9] else sepRaw) b sp ns rb re (Entry.ctxEnc true ctx).buf true
          (Entry.ctxEnc true ctx).openNs self ev) =
      .done [.bytes (Console.consoleLine cfg sepRaw ent k ctx fields), .list []] fl := by
  have h := EncodeEntry_matches_source P c (if sepRaw.isEmpty then [9] else sepRaw) e fv b sp ns rb re
    (Entry.ctxEnc true ctx).buf true (Entry.ctxEnc true ctx).openNs self ev fuel
  rw [consoleBytes_is_consoleLine P c e cfg ent k L sepRaw ctx fields fv hf] at h
  exact ⟨_, h⟩

end ZapVerif.C16
