import ZapVerif.Model.Console
import ZapVerif.Proofs.EntryWF
import ZapVerif.Proofs.Spaced
import ZapVerif.Gen.EntryMeta
import ZapVerif.Proofs.SubEnc
/-! # C16 — console encoder lines have the documented shape with a valid JSON context -/
namespace ZapVerif.C16
open ZapVerif ZapVerif.Esc ZapVerif.Json ZapVerif.Enc ZapVerif.Entry ZapVerif.Console

/-- the documented shape: present columns in the fixed order time, level, name, caller, function, joined by the
    separator; then (separator if anything precedes) the message iff its key is set; then (separator if anything
    precedes) the context object iff it is non-empty; then a newline and the stack iff key ∧ stack ≠ ""; then the
    line ending.  All 2^7 presence patterns are instances. -/
theorem console_shape (c : Cfg) (sepRaw : Bytes) (e : Ent) (k : Cols) (ctx : List (List Field)) (fields : List Field) :
    ∃ sepc cols msgPart ctxPart stackPart,
      consoleLine c sepRaw e k ctx fields = joinSep sepc cols ++ msgPart ++ ctxPart ++ stackPart ++ c.ending ∧
      sepc = (if sepRaw.isEmpty then [9] else sepRaw) ∧
      cols = columns c e k ∧
      msgPart = (if !c.messageKey.isEmpty then (if (joinSep sepc cols).isEmpty then [] else sepc) ++ e.message else []) ∧
      ctxPart = (if (contextBytes ctx fields).isEmpty then []
                 else (if (joinSep sepc cols ++ msgPart).isEmpty then [] else sepc) ++ 123 :: (contextBytes ctx fields ++ [125])) ∧
      stackPart = (if !e.stack.isEmpty && !c.stacktraceKey.isEmpty then 10 :: e.stack else []) := by
  refine ⟨_, _, _, _, _, ?_, rfl, rfl, rfl, rfl, rfl⟩
  unfold consoleLine sepIf
  simp only []
  by_cases hm : c.messageKey.isEmpty <;> by_cases hc : (contextBytes ctx fields).isEmpty <;>
    by_cases hs : (!e.stack.isEmpty && !c.stacktraceKey.isEmpty) <;>
    by_cases h1 : (joinSep (if sepRaw.isEmpty then [9] else sepRaw) (columns c e k)).isEmpty <;>
    simp [hm, hc, hs, h1, List.append_assoc] <;>
    (try (by_cases h2 : e.message.isEmpty <;> simp_all [List.append_assoc]))

/-- the columns are a sub-list of [time, level, name, caller, function] in that order, each present exactly when
    its key is set, the entry carries a value for it, and its encoder appended something -/
theorem columns_order (c : Cfg) (e : Ent) (k : Cols) :
    columns c e k =
      (if !c.timeKey.isEmpty && e.time.isSome then optL k.time else []) ++
      (if !c.levelKey.isEmpty then optL k.level else []) ++
      (if !e.name.isEmpty && !c.nameKey.isEmpty then optL k.name else []) ++
      (if e.callerDefined then
         (if !c.callerKey.isEmpty then optL k.caller else []) ++ (if !c.functionKey.isEmpty then [e.function] else [])
       else []) := rfl

/-- the context is produced by the SAME machine as the JSON encoder (spaced mode) from the SAME calls — context
    fields then call-site fields — and equals their compositional spaced output plus the closing braces owed -/
theorem ctx_is_json_ctx (ctx : List (List Field)) (fields : List Field)
    (hc : ∀ fs ∈ ctx, ∀ f ∈ fs, FieldOK f) (hf : ∀ f ∈ fields, FieldOK f) :
    contextBytes ctx fields =
      (outO true true (ctx.flatMap addFields ++ addFields fields)).1 ++
        List.replicate (outO true true (ctx.flatMap addFields ++ addFields fields)).2 125 := by
  unfold contextBytes ctxEnc ctxOf
  simp only []
  rw [← runO_append]
  rw [runO_eq true _ [] 0 true (Or.inl ⟨rfl, rfl⟩) (WFo_append _ _ (ctx_good ctx hc).1 (addFields_good fields hf).1)]
  simp

mutual
/-- spaced and compact output leave the same namespaces open: they differ only in the blanks after `,` and `:` -/
theorem spaced_same_nesting : ∀ (calls : List OC) (f : Bool), (outO true f calls).2 = (outO false f calls).2
  | [], _ => by simp [outO]
  | OC.prim _ _ :: r, f => by simp only [outO]; exact spaced_same_nesting r false
  | OC.ns _ :: r, f => by simp only [outO]; rw [spaced_same_nesting r true]
  | OC.obj _ _ :: r, f => by simp only [outO]; exact spaced_same_nesting r false
  | OC.arr _ _ :: r, f => by simp only [outO]; exact spaced_same_nesting r false
end

/-- the compact rendering of those same calls is the object the JSON encoder emits for the fields (C02) -/
theorem ctx_compact_is_tree (ctx : List (List Field)) (fields : List Field) :
    (outO false true (ctx.flatMap addFields ++ addFields fields)).1 ++
      List.replicate (outO false true (ctx.flatMap addFields ++ addFields fields)).2 125 =
    memOut true (denO (ctx.flatMap addFields ++ addFields fields)) := outO_den _ true

/-- the context object is valid JSON and holds exactly the fields the JSON encoder emits: reading
    `{` context `}` back (one optional blank after `,` and `:`) yields the tree `denO` of the same calls — the
    tree C02 proves the JSON encoder's line decodes to for its fields part — in order, at the same nesting -/
theorem ctx_valid (ctx : List (List Field)) (fields : List Field)
    (hc : ∀ fs ∈ ctx, ∀ f ∈ fs, FieldOK f) (hf : ∀ f ∈ fields, FieldOK f) :
    parseV (sizeT (T.obj (denTO (ctx.flatMap addFields ++ addFields fields))))
        (123 :: (contextBytes ctx fields ++ [125])) =
      some (J.obj (denO (ctx.flatMap addFields ++ addFields fields)), []) := by
  rw [ctx_is_json_ctx ctx fields hc hf]
  exact spaced_object_parses _ (WFo_append _ _ (ctx_good ctx hc).1 (addFields_good fields hf).1)

/-- the guard structure of `consoleEncoder.EncodeEntry` / `writeContext` that `columns` and `consoleLine` mirror
    (re-read from zapcore/console_encoder.go on every run) -/
def expectedConsoleEntryGuards : List String := [
  "0:c.TimeKey != \"\" && c.EncodeTime != nil && !ent.Time.IsZero()",
  "0:c.LevelKey != \"\" && c.EncodeLevel != nil",
  "0:ent.LoggerName != \"\" && c.NameKey != \"\"",
  "1:nameEncoder == nil",
  "0:ent.Caller.Defined",
  "1:c.CallerKey != \"\" && c.EncodeCaller != nil",
  "1:c.FunctionKey != \"\"",
  "0:range arr.elems",
  "1:i > 0",
  "0:c.MessageKey != \"\"",
  "0:ent.Stack != \"\" && c.StacktraceKey != \"\""
]

theorem console_guards_as_modelled :
    Gen.consoleEntryGuards = expectedConsoleEntryGuards ∧ Gen.consoleContextGuards = ["0:context.buf.Len() == 0"] := by
  decide

/-- non-vacuity: a line with two columns, a message and one field -/
example :
    consoleLine ⟨[109], [108], [], [], [], [], [], [], false⟩ [] ⟨0, .noop, none, [], .noop, false, .noop, [], [], [104, 105], []⟩
      ⟨none, some [73, 78, 70, 79], none, none⟩ [] [.prim [107] (.scalar (.int 1))] =
    [73, 78, 70, 79, 9, 104, 105, 9, 123, 34, 107, 34, 58, 32, 49, 125, 10] := by decide +kernel

/-! ------------------------------------------------------------------------------------------------------------------
## built-in sub-encoders (BEGIN block `subenc`; model `Model/SubEnc.lean`, lemmas `Proofs/SubEnc.lean`)

The column texts of the built-in exact encoders are computed by the model (`SubEnc.colOf` of the computed result:
`fmt.Fprint` of the one string / int64 the function appended), no longer supplied by the harness. -/
section SubEncoders
open ZapVerif.SubEnc

/-- the columns of an entry under built-in exact encoders -/
def builtinCols (lk : LvlEnc) (ck : CallerEnc) (level : Int) (timeC : Option Bytes) (name : Bytes)
    (defined : Bool) (file : Bytes) (line : Int) : Cols :=
  ⟨timeC, colOf (lvlRes (some lk) .noop level) none, colOf (nameRes true .noop name) none,
   colOf (callerRes (some ck) .noop defined file line) none⟩

/-- console columns under the built-in encoders: the level column is exactly the level encoder's text (table text, or
    the table text inside the colour escape), the name column the logger name, the caller column `file:line` with the
    documented trimming; each present under the documented condition, in the documented order -/
theorem console_builtin_columns (c : Cfg) (lk : LvlEnc) (ck : CallerEnc) (level : Int) (time : Option TimeV)
    (timeC : Option Bytes) (name : Bytes) (file : Bytes) (line : Int) (function message stack : Bytes) :
    columns c (builtinEnt lk ck level time name true file line function message stack)
        (builtinCols lk ck level timeC name true file line) =
      (if !c.timeKey.isEmpty && time.isSome then optL timeC else []) ++
      (if !c.levelKey.isEmpty then [levelText lk level] else []) ++
      (if !name.isEmpty && !c.nameKey.isEmpty then [name] else []) ++
      ((if !c.callerKey.isEmpty then [callerText ck true file line] else []) ++
       (if !c.functionKey.isEmpty then [function] else [])) := by
  simp [columns, builtinEnt, builtinCols, colOf, colText, lvlRes, nameRes, nameFull, callerRes, optL]

/-- `EpochNanosTimeEncoder` column: the decimal of UnixNano -/
theorem console_nanos_column (o : SubRes) (n : Int) : colOf (timeRes true o n) none = some (fmtInt n) := rfl

/-- the level column determines the level (all 256 values, every level encoder) -/
theorem console_level_column_injective (k : LvlEnc) :
    ∀ a ∈ allLevels, ∀ b ∈ allLevels, colOf (lvlRes (some k) .noop a) none = colOf (lvlRes (some k) .noop b) none → a = b := by
  intro a ha b hb h
  simp only [colOf, lvlRes, colText, Option.orElse, Option.some.injEq] at h
  exact levelText_inj k a ha b hb h

/-- non-vacuity: coloured capital level, short caller -/
example :
    consoleLine ⟨[109], [108], [], [], [99], [], [], [], false⟩ []
      (builtinEnt .capitalColor .short 1 none [] true [97, 47, 98, 47, 99] 7 [] [104, 105] [])
      (builtinCols .capitalColor .short 1 none [] true [97, 47, 98, 47, 99] 7) [] [] =
    [27, 91, 51, 51, 109, 87, 65, 82, 78, 27, 91, 48, 109, 9, 98, 47, 99, 58, 55, 9, 104, 105, 10] := by decide +kernel

end SubEncoders
/-! ## (END block `subenc`) -/

end ZapVerif.C16
