import ZapVerif.Proofs.Zio
/-! # C17 — zapio.Writer logs exactly the lines of the byte stream, however it is chunked

Property theorems only; helper lemmas live in `Proofs/Zio.lean`, the model in `Model/Zio.lean`. -/
namespace ZapVerif.C17
open ZapVerif ZapVerif.Zio

/-- the Writes of a step list, in order -/
def writesOf : List Step → List Bytes
  | [] => []
  | .write bs :: r => bs :: writesOf r
  | _ :: r => writesOf r

/-- Full statement for any mix of Write and Sync calls (level enabled) followed by Close:
    the messages are exactly the lines of the event stream — which no longer knows chunk boundaries. -/
theorem session_eq_spec (steps : List Step) (h : allEnabled steps = true) :
    (session steps).1 = (linesEv [] (events steps ++ [Ev.mark])).1 := by
  have h' : allEnabled (steps ++ [Step.sync]) = true := by simp [allEnabled_append, h, allEnabled]
  have := (runSteps_eq_linesEv [] (steps ++ [Step.sync]) h').1
  simp only [session]
  rw [events_append] at this
  simpa [events] using this

/-- the same with level changes at arbitrary positions: whatever the sequence of Writes, Syncs and level changes,
    the messages are those of the event stream under `specT` — bytes written while the level is disabled are not part
    of the stream, a line ends at each newline and (when non-empty) at each Sync/Close, and a line is logged only if the
    level is enabled at that moment -/
theorem session_eq_spec_toggles (steps : List Step) :
    (session steps).1 = (specT true [] (eventsT steps ++ [EvT.mark])).1 := by
  have h := (runSteps_eq_specT {} (steps ++ [Step.sync])).1
  rw [eventsT_append] at h
  simpa [session, eventsT] using h

/-- chunking invariance in general: two call sequences with the same bytes, split marks and level changes log the
    same messages -/
theorem chunking_invariant_toggles (s₁ s₂ : List Step) (he : eventsT s₁ = eventsT s₂) :
    (session s₁).1 = (session s₂).1 := by
  rw [session_eq_spec_toggles, session_eq_spec_toggles, he]

/-- chunking invariance: two call sequences carrying the same bytes and split marks log the same messages -/
theorem chunking_invariant (s₁ s₂ : List Step) (h₁ : allEnabled s₁ = true) (h₂ : allEnabled s₂ = true)
    (he : events s₁ = events s₂) : (session s₁).1 = (session s₂).1 := by
  rw [session_eq_spec s₁ h₁, session_eq_spec s₂ h₂, he]

/-- plain Writes then Close: the lines of the concatenated stream, the unterminated tail last, and
    no empty message for a trailing newline -/
theorem writes_then_close (chunks : List Bytes) :
    (let (ms, b) := run [] chunks; ms ++ (sync b).1) =
    (let (ls, t) := lines [] chunks.flatten; ls ++ (if t.isEmpty then [] else [t])) := by
  rw [run_eq_lines]; simp [sync]

/-- the fast path (empty buffer: log the slice directly) and the buffered path agree -/
theorem fast_path_eq (buff s : Bytes) : write buff s = lines buff s := feed_eq_lines _ buff s (Nat.lt_succ_self _)

/-- a Sync is a split point: afterwards nothing is buffered -/
theorem sync_is_split (w : W) : (step w .sync).1.buff = [] := by simp [step, sync]

/-- no empty message at a mark: a stream ending in a newline leaves an empty tail, so Close logs nothing -/
theorem no_trailing_empty (cur s : Bytes) : (lines cur (s ++ [10])).2 = [] := by
  rw [lines_append]; simp [lines]

/-- every Write reports all bytes as consumed with a nil error (enabled or not) -/
theorem write_count_full (w : W) (bs : Bytes) : (step w (.write bs)).2.2 = some (bs.length, false) := by
  simp only [step]; split <;> rfl

/-- nothing is logged while the level is disabled, and a disabled Write leaves the writer untouched -/
theorem disabled_logs_nothing_and_keeps_state (b : Bytes) (s : Step) :
    (step ⟨b, false⟩ s).2.1 = [] ∧ (∀ bs, s = .write bs → (step ⟨b, false⟩ s).1 = ⟨b, false⟩) := by
  constructor
  · cases s <;> simp [step]
  · intro bs h; subst h; simp [step]

/-- non-vacuity: a concrete chunked stream with an interior empty line, a Sync and a trailing newline -/
example : (session [.write [97, 10, 10], .write [98], .sync, .write [99, 10]]).1 = [[97], [], [98], [99]] := by
  decide
example : allEnabled [.write [97, 10, 10], .write [98], .sync, .write [99, 10]] = true := by decide

end ZapVerif.C17
