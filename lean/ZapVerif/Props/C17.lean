import ZapVerif.Proofs.Zio
import ZapVerif.Proofs.TransZio
/-! # C17 — zapio.Writer logs exactly the lines of the byte stream, however it is chunked

Property theorems only; helper lemmas live in `Proofs/Zio.lean`, the model in `Model/Zio.lean`. -/
namespace ZapVerif.C17
open ZapVerif ZapVerif.Zio

/-- the Writes of a step list, in order -/
def writesOf : List Step → List Bytes
  | [] => []
  | .write bs :: r => bs :: writesOf r
  | _ :: r => writesOf r

/-- Full statement for any mix of Write and Sync calls (level enabled) followed by Close:
    the messages are exactly the lines of the event stream — which no longer knows chunk boundaries. -/
theorem session_eq_spec (steps : List Step) (h : allEnabled steps = true) :
    (session steps).1 = (linesEv [] (events steps ++ [Ev.mark])).1 := by
  have h' : allEnabled (steps ++ [Step.sync]) = true := by simp [allEnabled_append, h, allEnabled]
  have := (runSteps_eq_linesEv [] (steps ++ [Step.sync]) h').1
  simp only [session]
  rw [events_append] at this
  simpa [events] using this

/-- the same with level changes at arbitrary positions: whatever the sequence of Writes, Syncs and level changes,
    the messages are those of the event stream under `specT` — bytes written while the level is disabled are not part
    of the stream, a line ends at each newline and (when non-empty) at each Sync/Close, and a line is logged only if the
    level is enabled at that moment -/
theorem session_eq_spec_toggles (steps : List Step) :
    (session steps).1 = (specT true [] (eventsT steps ++ [EvT.mark])).1 := by
  have h := (runSteps_eq_specT {} (steps ++ [Step.sync])).1
  rw [eventsT_append] at h
  simpa [session, eventsT] using h

/-- chunking invariance in general: two call sequences with the same bytes, split marks and level changes log the
    same messages -/
theorem chunking_invariant_toggles (s₁ s₂ : List Step) (he : eventsT s₁ = eventsT s₂) :
    (session s₁).1 = (session s₂).1 := by
  rw [session_eq_spec_toggles, session_eq_spec_toggles, he]

/-- chunking invariance: two call sequences carrying the same bytes and split marks log the same messages -/
theorem chunking_invariant (s₁ s₂ : List Step) (h₁ : allEnabled s₁ = true) (h₂ : allEnabled s₂ = true)
    (he : events s₁ = events s₂) : (session s₁).1 = (session s₂).1 := by
  rw [session_eq_spec s₁ h₁, session_eq_spec s₂ h₂, he]

/-- plain Writes then Close: the lines of the concatenated stream, the unterminated tail last, and
    no empty message for a trailing newline -/
theorem writes_then_close (chunks : List Bytes) :
    (let (ms, b) := run [] chunks; ms ++ (sync b).1) =
    (let (ls, t) := lines [] chunks.flatten; ls ++ (if t.isEmpty then [] else [t])) := by
  rw [run_eq_lines]; simp [sync]

/-- the fast path (empty buffer: log the slice directly) and the buffered path agree -/
theorem fast_path_eq (buff s : Bytes) : write buff s = lines buff s := feed_eq_lines _ buff s (Nat.lt_succ_self _)

/-- a Sync is a split point: afterwards nothing is buffered -/
theorem sync_is_split (w : W) : (step w .sync).1.buff = [] := by simp [step, sync]

/-- no empty message at a mark: a stream ending in a newline leaves an empty tail, so Close logs nothing -/
theorem no_trailing_empty (cur s : Bytes) : (lines cur (s ++ [10])).2 = [] := by
  rw [lines_append]; simp [lines]

/-- every Write reports all bytes as consumed with a nil error (enabled or not) -/
theorem write_count_full (w : W) (bs : Bytes) : (step w (.write bs)).2.2 = some (bs.length, false) := by
  simp only [step]; split <;> rfl

/-- nothing is logged while the level is disabled, and a disabled Write leaves the writer untouched -/
theorem disabled_logs_nothing_and_keeps_state (b : Bytes) (s : Step) :
    (step ⟨b, false⟩ s).2.1 = [] ∧ (∀ bs, s = .write bs → (step ⟨b, false⟩ s).1 = ⟨b, false⟩) := by
  constructor
  · cases s <;> simp [step]
  · intro bs h; subst h; simp [step]

/-- non-vacuity: a concrete chunked stream with an interior empty line, a Sync and a trailing newline -/
example : (session [.write [97, 10, 10], .write [98], .sync, .write [99, 10]]).1 = [[97], [], [98], [99]] := by
  decide
example : allEnabled [.write [97, 10, 10], .write [98], .sync, .write [99, 10]] = true := by decide

end ZapVerif.C17

/-! ## the model's writer IS the source (Go→GoMini translation, docs/TRANSLATOR.md)

`Gen/TransZio.lean` holds the bodies of `Writer.Write`, `writeLine`, `flush` and `Sync` as read from zapio/writer.go on
this run.  For every buffer content, every chunk (any length < 2^63, any number of newlines) and either answer of the
level check, the interpreted functions do exactly what `Zio.step` says: same new buffer, same messages in the same
order, `(len(bs), nil)`; the slice expressions `line[:idx]`, `line[idx+1:]` cannot panic. -/
namespace ZapVerif.C17
set_option linter.unusedSimpArgs false
open ZapVerif ZapVerif.Zio ZapVerif.GoMini ZapVerif.TransZio ZapVerif.Gen.TransZio

/-- `w.log(b)` on the message trace -/
def logged (en : Bool) (out : List Val) (b : Bytes) : List Val := if en then out ++ [.bytes b] else out

/-- body of `flush(allowEmpty)`: log the buffer if allowed or non-empty, then reset it -/
theorem flush_exec_matches_source (en allow : Bool) (buff : Bytes) (lvl : Int) (out : List Val) (fuel : Nat) :
    (exec (X en) (fuel + 1) flush_body ⟨[("p0", .bool allow)], zfld buff lvl out⟩).fin =
      some ([], zfld [] lvl (if allow ∨ buff ≠ [] then logged en out buff else out)) := by
  rw [exec_succ]
  cases allow <;> cases buff <;> simp [flush_body, logged]

/-- body of `writeLine(line)` ≡ `TransZio.wl`: no newline ⇒ everything is buffered and nothing remains; otherwise
    the part before the first newline is logged (alone on the fast path, after the buffered bytes otherwise), the
    buffer ends empty, and the bytes after the newline remain.  `line[:idx]` and `line[idx+1:]` are in bounds. -/
theorem writeLine_exec_matches_source (en : Bool) (buff line : Bytes) (lvl : Int) (out : List Val) (fuel : Nat)
    (hl : (line.length : Int) < 9223372036854775808) :
    (exec (X en) (fuel + 2) writeLine_body ⟨[("p0", .bytes line), ("r0", .bytes [])], zfld buff lvl out⟩).fin =
      some ([.bytes (wl buff line).2.2], zfld (wl buff line).1 lvl ((wl buff line).2.1.foldl (logged en) out)) := by
  have hflush : ∀ (σ : State) (b : Bytes), retK σ [] "flush"
      (exec (X en) (fuel + 1) flush_body ⟨[("p0", .bool true)], zfld b lvl out⟩) =
        .normal { σ with fld := zfld [] lvl (logged en out b) } := by
    intro σ b
    have := retK_of_fin0 σ "flush" _ _ (flush_exec_matches_source en true b lvl out fuel)
    simpa using this
  rw [exec_succ]
  cases hd : line.dropWhile (fun b => b != 10) with
  | nil =>
    have hi := indexByte_none line hd
    simp [writeLine_body, wl, hd, hi]
  | cons c rest =>
    obtain ⟨hi, hsplit⟩ := indexByte_some line c rest hd
    generalize htw : line.takeWhile (fun b => b != 10) = tw at hi hsplit
    have hwl : wl buff line = ([], [if buff.isEmpty then tw else buff ++ tw], rest) := by
      simp [wl, hd, htw]
    rw [hwl]
    subst hsplit
    have hlen : (tw.length : Int) + 1 < 9223372036854775808 := by
      simp only [List.length_append, List.length_cons] at hl; omega
    have hw : wrap .int ((tw.length : Int) + 1) = ((tw.length + 1 : Nat) : Int) := by
      rw [wrap_int_id] <;> omega
    have hnn : ¬ ((tw.length : Int) < 0) := by omega
    have ht : (tw ++ 10 :: rest).take tw.length = tw := List.take_left' rfl
    have hdr : (tw ++ 10 :: rest).drop (tw.length + 1) = rest := by
      rw [show tw ++ 10 :: rest = (tw ++ [10]) ++ rest by simp]
      exact List.drop_left' (by simp)
    have hc1 : (tw.length : Int) ≤ tw.length + ((rest.length : Int) + 1) := by omega
    have hc2 : 0 ≤ (tw.length : Int) + 1 ∧ (1 : Int) ≤ (rest.length : Int) + 1 := by omega
    have htake : List.take ((tw.length : Int) + ((rest.length : Int) + 1)).toNat (tw ++ 10 :: rest) = tw ++ 10 :: rest := by
      apply List.take_of_length_le; simp; omega
    cases buff with
    | nil => simp [writeLine_body, hi, hw, hnn, ht, hdr, logged, hc1, hc2, htake]
    | cons b0 br =>
      have hbl : ¬ ((br.length : Int) + 1 = 0) := by omega
      simp [writeLine_body, hi, hw, hnn, ht, hdr, logged, hflush, hc1, hc2, htake, hbl]

/-- the loop `for len(bs) > 0 { bs = w.writeLine(bs) }` ≡ the model's `lines` (= `write`, `fast_path_eq`): it
    terminates after at most `len(bs)` iterations with the unterminated tail in the buffer and the complete lines
    logged in order -/
theorem Write_loop_matches_source (en : Bool) (buff bs : Bytes) (lvl : Int) (out : List Val) (n : Int) (fuel : Nat)
    (hl : (bs.length : Int) < 9223372036854775808) :
    execS (X en) (exec (X en) (fuel + bs.length + 2)) Write_loop0
        ⟨[("p0", .bytes bs), ("r0", .int n), ("r1", .list [])], zfld buff lvl out⟩ =
      .normal ⟨[("p0", .bytes []), ("r0", .int n), ("r1", .list [])],
        zfld (lines buff bs).2 lvl ((lines buff bs).1.foldl (logged en) out)⟩ := by
  unfold Write_loop0
  refine (loop_fold (α := Bytes × Bytes × List Val) (X en) _ _ _ 2
    (fun a => ⟨[("p0", .bytes a.2.1), ("r0", .int n), ("r1", .list [])], zfld a.1 lvl a.2.2⟩)
    (fun a => (a.2.1.length : Int) < 9223372036854775808)
    (fun a => decide (a.2.1 ≠ []))
    (fun a => ((wl a.1 a.2.1).1, (wl a.1 a.2.1).2.2, (wl a.1 a.2.1).2.1.foldl (logged en) a.2.2))
    (fun a => ((lines a.1 a.2.1).2, [], (lines a.1 a.2.1).1.foldl (logged en) a.2.2))
    (fun a => a.2.1.length)
    ?_ ?_ ?_ ?_ ?_ ?_ bs.length (buff, bs, out) fuel hl (Nat.le_refl _)).trans (by simp)
  · intro a _
    obtain ⟨b, s, o⟩ := a
    cases s <;> simp
  · intro a fuel ha hc
    obtain ⟨b, s, o⟩ := a
    have h := retK_of_fin1 ⟨[("p0", .bytes s), ("r0", .int n), ("r1", .list [])], zfld b lvl o⟩ (.loc "p0") "writeLine" _ _ _
      (writeLine_exec_matches_source en b s lvl o fuel ha)
    simp [h]
  · intro a ha hc
    obtain ⟨b, s, o⟩ := a
    have hs : s ≠ [] := by simpa using hc
    have := wl_shorter b s hs
    show ((wl b s).2.2.length : Int) < 9223372036854775808
    have ha' : (s.length : Int) < 9223372036854775808 := ha
    omega
  · intro a ha hc
    obtain ⟨b, s, o⟩ := a
    have hs : s ≠ [] := by simpa using hc
    exact wl_shorter b s hs
  · intro a ha hc
    obtain ⟨b, s, o⟩ := a
    have hs : s = [] := by simpa using hc
    subst hs
    simp [lines]
  · intro a ha hc
    obtain ⟨b, s, o⟩ := a
    have hs : s ≠ [] := by simpa using hc
    simp only [lines_wl b s hs, List.foldl_append]

/-- `Writer.Write(bs)` ≡ `Zio.step w (.write bs)`: a disabled level returns `(len(bs), nil)` and touches nothing;
    otherwise every complete line is logged, the tail stays buffered, and the result is `(len(bs), nil)` — for every
    buffer content and every chunk -/
theorem Write_matches_source (w : W) (bs : Bytes) (lvl : Int) (out : List Bytes) (fuel : Nat)
    (hl : (bs.length : Int) < 9223372036854775808) :
    run (X w.enabled) (fuel + bs.length + 3) "Write" [.bytes bs] (zfld w.buff lvl (out.map .bytes)) =
      .done [.int bs.length, .list []]
        (zfld (step w (.write bs)).1.buff lvl ((out ++ (step w (.write bs)).2.1).map .bytes)) := by
  refine run_of_fin (X w.enabled) _ _ Gen.TransZio.Write [.bytes bs] _ _ _ rfl rfl ?_
  show (exec (X w.enabled) (fuel + bs.length + 3) Write_body
    ⟨[("p0", .bytes bs), ("r0", .int 0), ("r1", .list [])], _⟩).fin = _
  rw [exec_succ]
  obtain ⟨buff, en⟩ := w
  cases en
  · simp [Write_body, step]
  · have hloop := Write_loop_matches_source true buff bs lvl (out.map .bytes) bs.length fuel hl
    have hlog : ∀ (ms : List Bytes) (o : List Bytes),
        ms.foldl (logged true) (o.map Val.bytes) = (o ++ ms).map Val.bytes := by
      intro ms
      induction ms with
      | nil => intro o; simp
      | cons m r ih => intro o; simp only [List.foldl_cons, logged, if_true]
                       rw [show o.map Val.bytes ++ [Val.bytes m] = (o ++ [m]).map Val.bytes by simp, ih]; simp
    simp [Write_body, step, hloop, hlog, fast_path_eq]

/-- `Writer.Sync()` (and `Close`) ≡ `Zio.step w .sync`: a non-empty buffer is logged (if the level is enabled) and
    the buffer is reset; no empty message is produced -/
theorem Sync_matches_source (w : W) (lvl : Int) (out : List Bytes) (fuel : Nat) :
    run (X w.enabled) (fuel + 2) "Sync" [] (zfld w.buff lvl (out.map .bytes)) =
      .done [.list []] (zfld (step w .sync).1.buff lvl ((out ++ (step w .sync).2.1).map .bytes)) := by
  refine run_of_fin (X w.enabled) _ _ Gen.TransZio.Sync [] _ _ _ rfl rfl ?_
  show (exec (X w.enabled) (fuel + 2) Sync_body ⟨[], _⟩).fin = _
  rw [exec_succ]
  obtain ⟨buff, en⟩ := w
  have h := fun σ => retK_of_fin0 σ "flush" _ _ (flush_exec_matches_source en false buff lvl (out.map .bytes) fuel)
  cases en <;> cases buff <;> simp [Sync_body, h, step, sync, logged]

end ZapVerif.C17
