import ZapVerif.Model.Slog
import ZapVerif.Proofs.Slog
/-! # C18 — the slog handler reproduces slog's attribute and group semantics

`tree D R` is the slog.Handler contract for a derivation sequence `D` and a record `R` (Model/Slog.lean):
attributes keep order and payload, group attributes nest, empty-key groups are inlined, the empty Attr and
groups without (transitive) content are omitted, `WithGroup ""` opens nothing, LogValuers are resolved.
`handle (run root D) R` is what the handler of exp/zapslog makes the encoder emit. -/
namespace ZapVerif.C18
open ZapVerif ZapVerif.Slog

/-- core of C18, from any handler state: the entry is the context with, in its innermost open namespace,
    the pending groups wrapped around the contract tree of the remaining derivation and the record -/
theorem handler_refines_contract_from : ∀ (D : List Step) (h : H) (R : List SAttr),
    handle (run h D) R = plugD h.ctx (wrap h.pending (tree D R))
  | [], h, R => by
    have := addAttrs_plug h R []
    simp only [wrap, List.append_nil] at this
    simp only [handle, run, tree, denote_eq_plugD]
    simpa [wrap] using this
  | .withGroup g :: D, h, R => by
    simp only [run, step, tree]
    by_cases hg : g = ""
    · simp only [hg, if_true]; exact handler_refines_contract_from D h R
    · simp only [hg, if_false]
      rw [handler_refines_contract_from D _ R, wrap_wrap]
  | .withAttrs as :: D, h, R => by
    simp only [run, step, tree]
    rw [handler_refines_contract_from D _ R, addAttrs_plug]

/-- **C18**: for every derivation sequence and every record, the handler emits exactly the contract tree -/
theorem handler_refines_contract (D : List Step) (R : List SAttr) :
    handle (run root D) R = tree D R := by
  rw [handler_refines_contract_from]; simp [root, plugD, wrap_nil]

/-- the same for branching programs: every handler a program creates (parents and siblings included, whatever
    was derived from them afterwards) emits the contract tree of the derivation path that leads to it -/
theorem handler_refines_contract_branching (ps : List PStep) (i : Nat) (h : H) (R : List SAttr)
    (hi : (runProg [root] ps)[i]? = some h) :
    ∃ D, (pathsOf [[]] ps)[i]? = some D ∧ handle h R = tree D R := by
  have hp := runProg_paths [[]] ps
  simp only [List.map_cons, List.map_nil, run] at hp
  rw [hp, List.getElem?_map] at hi
  cases hd : (pathsOf [[]] ps)[i]? with
  | none => simp [hd] at hi
  | some D =>
    simp only [hd, Option.map_some, Option.some.injEq] at hi
    exact ⟨D, rfl, by rw [← hi]; exact handler_refines_contract D R⟩

/-- LogValuers are resolved: the number of LogValuer layers around a value changes neither the contract
    nor the conversion (and `Value.Resolve` is what the conversion applies) -/
theorem valuers_resolved (a : SAttr) :
    content a = content (resolveTop a) ∧ convert a = convert (resolveTop a) := by
  cases a <;> simp [resolveTop, content, convert]

/-- the conversion skips exactly the attributes the contract ignores -/
theorem skip_iff_no_content (a : SAttr) : isSkip (convert a) = true ↔ content a = [] := by
  constructor
  · intro h
    have := denote_convert a
    cases hc : convert a <;> rw [hc] at h this <;> simp [isSkip] at h
    simpa [denote] using this.symm
  · intro h
    cases hs : isSkip (convert a) with
    | true => rfl
    | false => exact absurd h (convert_nonskip a hs)

/-- `hasContent` (the repair of F15) decides "has effective content" -/
theorem hasContent_spec (a : SAttr) : hasContent a = true ↔ content a ≠ [] := by
  rw [hasContent_iff]; cases content a <;> simp

/-- levels map monotonically (over the regenerated table of `convertSlogLevel`) … -/
theorem level_map_monotone (l l' z z' : Int) (h : convertLevel l = some z) (h' : convertLevel l' = some z')
    (hl : l ≤ l') : z ≤ z' := by
  have key : ∀ a ∈ Gen.slogLevels, ∀ b ∈ Gen.slogLevels, a.1 ≤ b.1 → a.2 ≤ b.2 := by decide +kernel
  exact key _ (lookup_mem _ _ _ h) _ (lookup_mem _ _ _ h') hl

/-- … onto zap levels (Debug = −1 … Fatal = 5), and the table covers every slog level in [−12, 12] (and far-out sample points on both sides) -/
theorem level_map_valid :
    (∀ p ∈ Gen.slogLevels, -1 ≤ p.2 ∧ p.2 ≤ 5) ∧
    (∀ n ∈ List.range 25, (convertLevel ((n : Int) - 12)).isSome = true) := by
  constructor <;> decide +kernel

/-- a record is handled iff the core enables the mapped level; the entry carries the mapped level -/
theorem handled_iff_enabled (enab : Int → Bool) (h : H) (l : Int) (R : List SAttr) :
    ((∃ e, handleRecord enab h l R = some (some e)) ↔ enabledAt enab l = some true) ∧
    (∀ z t, handleRecord enab h l R = some (some (z, t)) → convertLevel l = some z ∧ t = handle h R) := by
  unfold handleRecord enabledAt
  cases convertLevel l with
  | none => simp
  | some z =>
    by_cases he : enab z = true
    · simp [he]
    · simp [he]

/-- deriving never affects parents or siblings: with `Handler.groups` as Go slice headers over a heap of
    backing arrays, running any branching program at heap level (WithGroup copies into a fresh array) gives,
    for every handler, the state of the value-level semantics; and the value-level semantics only appends -/
theorem derive_isolated (ps : List PStep) (hp : GHeap) (xs : List HH) (hl : ∀ x ∈ xs, Live hp x) :
    (runProgHeap (hp, xs) ps).2.map (absH (runProgHeap (hp, xs) ps).1) = runProg (xs.map (absH hp)) ps ∧
    (runProg (xs.map (absH hp)) ps).take xs.length = xs.map (absH hp) := by
  refine ⟨runProgHeap_abs ps hp xs hl, ?_⟩
  have := runProg_prefix (xs.map (absH hp)) ps
  simpa using this

/-- one derivation step leaves every other live handler's view of its groups unchanged -/
theorem derive_frame (hp : GHeap) (x y : HH) (s : Step) (hy : Live hp y) :
    absH (stepHeap hp x s).1 y = absH hp y := stepHeap_frame hp x y s hy

/-! ## witnesses -/

/-- why the copy matters: with `append(h.groups, g)` a second sibling overwrites the first one's group -/
theorem append_would_alias :
    ∃ (hp : GHeap) (s : GSlice),
      let (hp1, t) := appendHeap hp s "first"
      let (hp2, _) := appendHeap hp1 s "second"
      view hp1 t = ["a", "first"] ∧ view hp2 t = ["a", "second"] := by
  refine ⟨[["a", ""]], ⟨0, 1⟩, ?_⟩
  decide

/-- F15, the handler before the repair: an empty group reaching it through WithAttrs is emitted as `"g":{}` -/
theorem unrepaired_emits_empty_group :
    handleOld (runOld root [.withAttrs [.group "g" 0 []]]) [] = [.node "g" []] ∧
    tree [.withAttrs [.group "g" 0 []]] [] = [] := by
  constructor <;> simp [handleOld, runOld, stepOld, root, addAttrs, convertsOld, convertOld, denote, tree, contents, content]

/-- F15, second symptom: a LogValuer resolving to an empty group forces the pending WithGroup namespace open -/
theorem unrepaired_opens_pending_group :
    handleOld (runOld root [.withGroup "p"]) [.group "x" 1 []] = [.node "p" [.node "x" []]] ∧
    tree [.withGroup "p"] [.group "x" 1 []] = [] := by
  constructor <;>
    simp [handleOld, runOld, stepOld, root, addAttrs, ins, isSkip, convertsOld, convertOld, denote, tree, contents,
      content, wrap]

/-- F14, the handler before the repair: `WithGroup("")` nests the next attribute under "" -/
theorem unrepaired_empty_name_opens_group (l : Leaf) :
    handleOld (runOld root [.withGroup ""]) [.leaf "a" 0 l] = [.node "" [.leaf "a" l]] ∧
    tree [.withGroup ""] [.leaf "a" 0 l] = [.leaf "a" l] := by
  constructor <;>
    simp [handleOld, runOld, stepOld, root, addAttrs, ins, isSkip, convertsOld, convertOld, denote, tree, contents,
      content]

/-! ## the hypotheses are satisfiable / the statements are not vacuous -/

example : handle (run root [.withGroup "g", .withAttrs [.nilv "" 1], .withGroup "h"])
    [.group "" 0 [.leaf "a" 0 ⟨"i64", "1"⟩], .group "e" 2 [.nilv "" 0]]
    = [.node "g" [.node "h" [.leaf "a" ⟨"i64", "1"⟩]]] := by
  rw [handler_refines_contract]
  simp [tree, contents, content, wrap, nest]

example : convertLevel 4 = some 1 ∧ convertLevel (-4) = some (-1) ∧ convertLevel 14 = none ∧ convertLevel 512 = some 2 := by decide +kernel

example : Live [] ⟨[], ⟨0, 0⟩⟩ := Or.inl rfl

example : (runProg [root] [⟨0, .withGroup "a"⟩, ⟨0, .withGroup "b"⟩, ⟨1, .withGroup "c"⟩]).map (·.pending)
    = [[], ["a"], ["b"], ["a", "c"]] := by decide

end ZapVerif.C18
