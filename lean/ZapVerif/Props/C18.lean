import ZapVerif.Model.Slog
import ZapVerif.Proofs.Slog
import ZapVerif.Proofs.TransSlog
/-! # C18 — the slog handler reproduces slog's attribute and group semantics

`tree D R` is the slog.Handler contract for a derivation sequence `D` and a record `R` (Model/Slog.lean):
attributes keep order and payload, group attributes nest, empty-key groups are inlined, the empty Attr and
groups without (transitive) content are omitted, `WithGroup ""` opens nothing, LogValuers are resolved.
`handle (run root D) R` is what the handler of exp/zapslog makes the encoder emit. -/
namespace ZapVerif.C18
open ZapVerif ZapVerif.Slog

/-- core of C18, from any handler state: the entry is the context with, in its innermost open namespace,
    the pending groups wrapped around the contract tree of the remaining derivation and the record -/
theorem handler_refines_contract_from : ∀ (D : List Step) (h : H) (R : List SAttr),
    handle (run h D) R = plugD h.ctx (wrap h.pending (tree D R))
  | [], h, R => by
    have := addAttrs_plug h R []
    simp only [wrap, List.append_nil] at this
    simp only [handle, run, tree, denote_eq_plugD]
    simpa [wrap] using this
  | .withGroup g :: D, h, R => by
    simp only [run, step, tree]
    by_cases hg : g = ""
    · simp only [hg, if_true]; exact handler_refines_contract_from D h R
    · simp only [hg, if_false]
      rw [handler_refines_contract_from D _ R, wrap_wrap]
  | .withAttrs as :: D, h, R => by
    simp only [run, step, tree]
    rw [handler_refines_contract_from D _ R, addAttrs_plug]

/-- **C18**: for every derivation sequence and every record, the handler emits exactly the contract tree -/
theorem handler_refines_contract (D : List Step) (R : List SAttr) :
    handle (run root D) R = tree D R := by
  rw [handler_refines_contract_from]; simp [root, plugD, wrap_nil]

/-- the same for branching programs: every handler a program creates (parents and siblings included, whatever
    was derived from them afterwards) emits the contract tree of the derivation path that leads to it -/
theorem handler_refines_contract_branching (ps : List PStep) (i : Nat) (h : H) (R : List SAttr)
    (hi : (runProg [root] ps)[i]? = some h) :
    ∃ D, (pathsOf [[]] ps)[i]? = some D ∧ handle h R = tree D R := by
  have hp := runProg_paths [[]] ps
  simp only [List.map_cons, List.map_nil, run] at hp
  rw [hp, List.getElem?_map] at hi
  cases hd : (pathsOf [[]] ps)[i]? with
  | none => simp [hd] at hi
  | some D =>
    simp only [hd, Option.map_some, Option.some.injEq] at hi
    exact ⟨D, rfl, by rw [← hi]; exact handler_refines_contract D R⟩

/-- LogValuers are resolved: the number of LogValuer layers around a value changes neither the contract
    nor the conversion (and `Value.Resolve` is what the conversion applies) -/
theorem valuers_resolved (a : SAttr) :
    content a = content (resolveTop a) ∧ convert a = convert (resolveTop a) := by
  cases a <;> simp [resolveTop, content, convert]

/-- the conversion skips exactly the attributes the contract ignores -/
theorem skip_iff_no_content (a : SAttr) : isSkip (convert a) = true ↔ content a = [] := by
  constructor
  · intro h
    have := denote_convert a
    cases hc : convert a <;> rw [hc] at h this <;> simp [isSkip] at h
    simpa [denote] using this.symm
  · intro h
    cases hs : isSkip (convert a) with
    | true => rfl
    | false => exact absurd h (convert_nonskip a hs)

/-- `hasContent` (the repair of F15) decides "has effective content" -/
theorem hasContent_spec (a : SAttr) : hasContent a = true ↔ content a ≠ [] := by
  rw [hasContent_iff]; cases content a <;> simp

/-- levels map monotonically (over the regenerated table of `convertSlogLevel`) … -/
theorem level_map_monotone (l l' z z' : Int) (h : convertLevel l = some z) (h' : convertLevel l' = some z')
    (hl : l ≤ l') : z ≤ z' := by
  have key : ∀ a ∈ Gen.slogLevels, ∀ b ∈ Gen.slogLevels, a.1 ≤ b.1 → a.2 ≤ b.2 := by decide +kernel
  exact key _ (lookup_mem _ _ _ h) _ (lookup_mem _ _ _ h') hl

/-- … onto zap levels (Debug = −1 … Fatal = 5), and the table covers every slog level in [−12, 12] (and far-out sample points on both sides) -/
theorem level_map_valid :
    (∀ p ∈ Gen.slogLevels, -1 ≤ p.2 ∧ p.2 ≤ 5) ∧
    (∀ n ∈ List.range 25, (convertLevel ((n : Int) - 12)).isSome = true) := by
  constructor <;> decide +kernel

/-- a record is handled iff the core enables the mapped level; the entry carries the mapped level -/
theorem handled_iff_enabled (enab : Int → Bool) (h : H) (l : Int) (R : List SAttr) :
    ((∃ e, handleRecord enab h l R = some (some e)) ↔ enabledAt enab l = some true) ∧
    (∀ z t, handleRecord enab h l R = some (some (z, t)) → convertLevel l = some z ∧ t = handle h R) := by
  unfold handleRecord enabledAt
  cases convertLevel l with
  | none => simp
  | some z =>
    by_cases he : enab z = true
    · simp [he]
    · simp [he]

/-- deriving never affects parents or siblings: with `Handler.groups` as Go slice headers over a heap of
    backing arrays, running any branching program at heap level (WithGroup copies into a fresh array) gives,
    for every handler, the state of the value-level semantics; and the value-level semantics only appends -/
theorem derive_isolated (ps : List PStep) (hp : GHeap) (xs : List HH) (hl : ∀ x ∈ xs, Live hp x) :
    (runProgHeap (hp, xs) ps).2.map (absH (runProgHeap (hp, xs) ps).1) = runProg (xs.map (absH hp)) ps ∧
    (runProg (xs.map (absH hp)) ps).take xs.length = xs.map (absH hp) := by
  refine ⟨runProgHeap_abs ps hp xs hl, ?_⟩
  have := runProg_prefix (xs.map (absH hp)) ps
  simpa using this

/-- one derivation step leaves every other live handler's view of its groups unchanged -/
theorem derive_frame (hp : GHeap) (x y : HH) (s : Step) (hy : Live hp y) :
    absH (stepHeap hp x s).1 y = absH hp y := stepHeap_frame hp x y s hy

/-! ## witnesses -/

/-- why the copy matters: with `append(h.groups, g)` a second sibling overwrites the first one's group -/
theorem append_would_alias :
    ∃ (hp : GHeap) (s : GSlice),
      let (hp1, t) := appendHeap hp s "first"
      let (hp2, _) := appendHeap hp1 s "second"
      view hp1 t = ["a", "first"] ∧ view hp2 t = ["a", "second"] := by
  refine ⟨[["a", ""]], ⟨0, 1⟩, ?_⟩
  decide

/-- F15, the handler before the repair: an empty group reaching it through WithAttrs is emitted as `"g":{}` -/
theorem unrepaired_emits_empty_group :
    handleOld (runOld root [.withAttrs [.group "g" 0 []]]) [] = [.node "g" []] ∧
    tree [.withAttrs [.group "g" 0 []]] [] = [] := by
  constructor <;> simp [handleOld, runOld, stepOld, root, addAttrs, convertsOld, convertOld, denote, tree, contents, content]

/-- F15, second symptom: a LogValuer resolving to an empty group forces the pending WithGroup namespace open -/
theorem unrepaired_opens_pending_group :
    handleOld (runOld root [.withGroup "p"]) [.group "x" 1 []] = [.node "p" [.node "x" []]] ∧
    tree [.withGroup "p"] [.group "x" 1 []] = [] := by
  constructor <;>
    simp [handleOld, runOld, stepOld, root, addAttrs, ins, isSkip, convertsOld, convertOld, denote, tree, contents,
      content, wrap]

/-- F14, the handler before the repair: `WithGroup("")` nests the next attribute under "" -/
theorem unrepaired_empty_name_opens_group (l : Leaf) :
    handleOld (runOld root [.withGroup ""]) [.leaf "a" 0 l] = [.node "" [.leaf "a" l]] ∧
    tree [.withGroup ""] [.leaf "a" 0 l] = [.leaf "a" l] := by
  constructor <;>
    simp [handleOld, runOld, stepOld, root, addAttrs, ins, isSkip, convertsOld, convertOld, denote, tree, contents,
      content]

/-! ## the hypotheses are satisfiable / the statements are not vacuous -/

example : handle (run root [.withGroup "g", .withAttrs [.nilv "" 1], .withGroup "h"])
    [.group "" 0 [.leaf "a" 0 ⟨"i64", "1"⟩], .group "e" 2 [.nilv "" 0]]
    = [.node "g" [.node "h" [.leaf "a" ⟨"i64", "1"⟩]]] := by
  rw [handler_refines_contract]
  simp [tree, contents, content, wrap, nest]

example : convertLevel 4 = some 1 ∧ convertLevel (-4) = some (-1) ∧ convertLevel 14 = none ∧ convertLevel 512 = some 2 := by decide +kernel

example : Live [] ⟨[], ⟨0, 0⟩⟩ := Or.inl rfl

example : (runProg [root] [⟨0, .withGroup "a"⟩, ⟨0, .withGroup "b"⟩, ⟨1, .withGroup "c"⟩]).map (·.pending)
    = [[], ["a"], ["b"], ["a", "c"]] := by decide

end ZapVerif.C18

/-! ## the slog handler IS the source (table `Gen/TransSlog.lean`)

`convertSlogLevel`, `hasContent`, `convertAttrToField`, `appendGroups`, `WithGroup`, `WithAttrs` and the head of `Handle` of
exp/zapslog/handler.go, translated mechanically, are interpreted on the model's own attributes (`Slog.SAttr`, encoded as
slog values: `TransSlog.attrV`) — every tree of groups, every number of LogValuer layers — and give the model's functions:
`levelSpec` (which is the regenerated level table), `Slog.hasContent`, `Slog.convert` (as constructor values), the
`ins` loop of `addAttrs`, `pending ++ [g]`.

**Aliasing.**  GoMini slices are VALUES: `append(h.groups, group)` and the clone idiom `make` + `copy` + element
assignment denote the same list, so the property `derive_isolated` (no two handlers share a backing array) is NOT
expressible about the translated term.  Instead the translator REFUSES, for this table (`noFieldAppend`), every `append`
whose first argument is a field of the receiver or of a struct copy of it, and every `append` that is not
`x = append(x, …)`; `WithGroup_matches_source` then holds of the clone idiom only, and `derive_isolated` /
`append_would_alias` above stay the statements about the heap-level model. -/
namespace ZapVerif.C18
set_option linter.unusedSimpArgs false
open ZapVerif ZapVerif.GoMini ZapVerif.Slog ZapVerif.TransSlog ZapVerif.Gen.TransSlog

/-- `convertSlogLevel`: Error from 8, Warn from 4, Info from 0, Debug below — for EVERY integer -/
theorem convertSlogLevel_exec_matches_source (P : Par) (l : Int) (fl : Env) (fuel : Nat) :
    (exec (X P) (fuel + 1) convertSlogLevel_body ⟨[("p0", .int l)], fl⟩).fin = some ([.int (levelSpec l)], fl) := by
  rw [exec_succ]
  have m8 := matchCase_true1 (X P) ⟨[("p0", .int l)], fl⟩ (.bin .ge (.loc "p0") (.lit (.int 8))) (decide (l ≥ 8)) (by simp)
  have m4 := matchCase_true1 (X P) ⟨[("p0", .int l)], fl⟩ (.bin .ge (.loc "p0") (.lit (.int 4))) (decide (l ≥ 4)) (by simp)
  have m0 := matchCase_true1 (X P) ⟨[("p0", .int l)], fl⟩ (.bin .ge (.loc "p0") (.lit (.int 0))) (decide (l ≥ 0)) (by simp)
  by_cases h8 : l ≥ 8
  · simp [convertSlogLevel_body, levelSpec, h8, m8]
  · by_cases h4 : l ≥ 4
    · simp [convertSlogLevel_body, levelSpec, h8, h4, m8, m4]
    · by_cases h0 : l ≥ 0 <;> simp [convertSlogLevel_body, levelSpec, h8, h4, h0, m8, m4, m0]

theorem convertSlogLevel_matches_source (P : Par) (l : Int) (fl : Env) (fuel : Nat) :
    run (X P) (fuel + 1) "convertSlogLevel" [.int l] fl = .done [.int (levelSpec l)] fl :=
  run_of_fin (X P) _ _ Gen.TransSlog.convertSlogLevel [.int l] _ _ _ rfl rfl
    (convertSlogLevel_exec_matches_source P l fl fuel)

/-- the thresholds ARE the regenerated table `Gen.slogLevels` the model's `convertLevel` looks up -/
theorem levelSpec_is_convertLevel (l z : Int) (h : convertLevel l = some z) : levelSpec l = z := by
  have hall : ∀ p ∈ Gen.slogLevels, levelSpec p.1 = p.2 := by decide +kernel
  unfold convertLevel at h
  have hmem : ∀ (t : List (Int × Int)), t.lookup l = some z → (l, z) ∈ t := by
    intro t
    induction t with
    | nil => simp [List.lookup]
    | cons p r ih =>
      obtain ⟨a, b⟩ := p
      simp only [List.lookup]
      by_cases hab : l == a
      · simp only [hab]; intro hz; have : a = l := by simpa using (beq_iff_eq.mp hab).symm
        simp_all
      · simp only [hab]; intro hz; exact List.mem_cons_of_mem _ (ih hz)
  exact hall (l, z) (hmem _ h)

/-- `appendGroups(fields)`: one `zap.Namespace` per pending group, in order, after the fields -/
theorem appendGroups_exec_matches_source (P : Par) (fields : List Val) (gs : List Bytes) (fl : Env)
    (hfl : Env.get "groups" fl = some (.list (gs.map Val.bytes))) (fuel : Nat) :
    (exec (X P) (fuel + 1) appendGroups_body ⟨[("p0", .list fields)], fl⟩).fin =
      some ([.list (fields ++ gs.map fun g => .list [TransSlog.nm "zap.Namespace", .bytes g])], fl) := by
  rw [exec_succ]
  have hloop : ∀ (ys : List Bytes) (acc : List Val) (i : Nat) (t : Option Val),
      ∃ t', rangeRun (execS (X P) (exec (X P) fuel) appendGroups_loop0.rbody) .blank (.loc "l0") (ys.map Val.bytes) i
          ⟨[("p0", .list acc)] ++ (match t with | some v => [("l0", v)] | none => []), fl⟩ =
        .normal ⟨[("p0", .list (acc ++ ys.map fun g => .list [TransSlog.nm "zap.Namespace", .bytes g]))] ++
          (match t' with | some v => [("l0", v)] | none => []), fl⟩ := by
    intro ys
    induction ys with
    | nil => intro acc i t; exact ⟨t, by cases t <;> simp [rangeRun]⟩
    | cons y r ih =>
      intro acc i t
      obtain ⟨t', h⟩ := ih (acc ++ [.list [TransSlog.nm "zap.Namespace", .bytes y]]) (i + 1) (some (.bytes y))
      refine ⟨t', ?_⟩
      cases t <;>
        simpa [rangeRun, appendGroups_loop0, Stmt.rbody, State.assign1, Env.set, List.append_assoc] using h
  obtain ⟨t', h⟩ := hloop gs fields 0 none
  have hL : appendGroups_loop0 = .range .blank (.loc "l0") (.fld "groups") appendGroups_loop0.rbody := rfl
  simp only [appendGroups_body, execS_seq]
  rw [hL, execS_range]
  simp only [evalE_fld, hfl, Res.out]
  simp only [List.nil_append, List.cons_append] at h
  rw [h]
  cases t' <;> simp

/-- `WithGroup("")` returns the receiver; otherwise the clone gets every field of the receiver and a FRESH slice
    holding the receiver's groups followed by the new one -/
theorem WithGroup_matches_source (P : Par) (g : Bytes) (core : Val) (name : Bytes) (ac : Bool) (asa cs : Int) (groups : List Val)
    (self : Val) (ocore : Val) (oname : Bytes) (oac : Bool) (oasa ocs : Int) (ogroups : List Val) (oself : Val) (ev : List Val)
    (hlen : (groups.length : Int) + 1 < 9223372036854775808) (fuel : Nat) :
    run (X P) (fuel + 1) "WithGroup" [.bytes g] (hFld core name ac asa cs groups self ocore oname oac oasa ocs ogroups oself ev) =
      if g.isEmpty then .done [self] (hFld core name ac asa cs groups self ocore oname oac oasa ocs ogroups oself ev)
      else .done [oself] (hFld core name ac asa cs groups self core name ac asa cs (groups ++ [.bytes g]) oself ev) := by
  cases g with
  | nil =>
    refine run_of_fin (X P) _ "WithGroup" Gen.TransSlog.WithGroup [.bytes []] _ _ _ rfl rfl ?_
    show (exec (X P) (fuel + 1) WithGroup_body ⟨[("p0", .bytes [])], _⟩).fin = _
    rw [exec_succ]
    simp [WithGroup_body]
  | cons x xs =>
    refine run_of_fin (X P) _ "WithGroup" Gen.TransSlog.WithGroup [.bytes (x :: xs)] _ _ _ rfl rfl ?_
    show (exec (X P) (fuel + 1) WithGroup_body ⟨[("p0", .bytes (x :: xs))], _⟩).fin = _
    rw [exec_succ]
    have hw : wrap .int ((groups.length : Int) + 1) = (groups.length : Int) + 1 := by rw [wrap_int_id] <;> omega
    have hmk : ext P "make.strings" [.int ((groups.length : Int) + 1)] =
        some [.list (List.replicate (groups.length + 1) (.bytes []))] := by
      have := ext_makeStrings P (groups.length + 1); push_cast at this; exact this
    have hcopy : groups.take (groups.length + 1) ++ (List.replicate (groups.length + 1) (Val.bytes [])).drop groups.length =
        groups ++ [.bytes []] := by
      rw [List.take_of_length_le (by omega)]
      simp [List.drop_replicate]
    have hset := ext_set P (groups ++ [.bytes []]) groups.length (.bytes (x :: xs)) (by simp)
    have hsetv : (groups ++ [Val.bytes []]).set groups.length (.bytes (x :: xs)) = groups ++ [.bytes (x :: xs)] := by
      simp [List.set_append_right]
    have htake : groups.take (groups.length + 1) = groups := List.take_of_length_le (by omega)
    simp [WithGroup_body, hw, hmk, hcopy, htake, hset, hsetv]

/-! ### `hasContent`: recursion over groups, with the fuel the nesting depth needs -/

/-- loop variables of `hasContent` left behind by earlier iterations: the member and the callee's answer -/
def hcJunk : Option (Val × Val) → Env
  | none => []
  | some (m, r) => [("l0", m), ("l1", r)]

/-- `attr.Value = attr.Value.Resolve()`: the attribute with every LogValuer layer stripped -/
theorem hasContent_resolve_matches_source (P : Par) (a : SAttr) (fl : Env) (rec : Stmt → State → GoMini.Out) :
    execS (X P) rec hasContent_body.hd ⟨[("p0", attrV a)], fl⟩ = .normal ⟨[("p0", attrV (resolved a))], fl⟩ := by
  simp [hasContent_body, Stmt.hd]

mutual
theorem hasContent_exec_matches_source (P : Par) : ∀ (a : SAttr) (F : Nat) (fl : Env), dep a + 1 ≤ F →
    (exec (X P) F hasContent_body ⟨[("p0", attrV a)], fl⟩).fin = some ([.bool (Slog.hasContent a)], fl)
  | .leaf k lv l, F, fl, h => by
    obtain ⟨F', rfl⟩ : ∃ F', F = F' + 1 := ⟨F - 1, by omega⟩
    rw [exec_succ, show hasContent_body = .seq hasContent_body.hd hasContent_body.tl from rfl, execS_seq,
      hasContent_resolve_matches_source]
    have hr := kindOfTy_range l.ty
    have hk : ¬ (kindOfTy l.ty = 8) := by omega
    simp [hasContent_body, Stmt.tl, Slog.hasContent, resolved, isZeroAttr, lvOf, kind0, hk]
  | .nilv k lv, F, fl, h => by
    obtain ⟨F', rfl⟩ : ∃ F', F = F' + 1 := ⟨F - 1, by omega⟩
    rw [exec_succ, show hasContent_body = .seq hasContent_body.hd hasContent_body.tl from rfl, execS_seq,
      hasContent_resolve_matches_source]
    by_cases hk : k = ""
    · subst hk
      simp [hasContent_body, Stmt.tl, Slog.hasContent, resolved, isZeroAttr, lvOf, kind0, sbytes]
    · have hne : (sbytes k).isEmpty = false := by rw [sbytes_isEmpty]; simp [hk]
      simp [hasContent_body, Stmt.tl, Slog.hasContent, resolved, isZeroAttr, lvOf, kind0, hne, hk]
  | .group k lv ms, F, fl, h => by
    have hd : deps ms + 2 ≤ F := by simpa [dep] using h
    obtain ⟨F', rfl⟩ : ∃ F', F = F' + 1 := ⟨F - 1, by omega⟩
    rw [exec_succ, show hasContent_body = .seq hasContent_body.hd hasContent_body.tl from rfl, execS_seq,
      hasContent_resolve_matches_source]
    obtain ⟨t', hloop⟩ := hasContent_loop_matches_source P ms F' fl (by omega) 0 (attrV (.group k 0 ms)) none
    have hL : hasContent_loop0 = .range .blank (.loc "l0") (.call "Value.Group" [.index (.loc "p0") (.lit (.int 1))])
        hasContent_loop0.rbody := rfl
    have hgrp : evalE (X P) ⟨[("p0", attrV (.group k 0 ms))], fl⟩ (.call "Value.Group" [.index (.loc "p0") (.lit (.int 1))]) =
        .ok (.list (attrsV ms)) := by simp
    simp [hasContent_body, Stmt.tl, resolved, isZeroAttr, lvOf, kind0]
    rw [hL, execS_range, hgrp]
    simp only [Res.out, hcJunk, List.append_nil] at hloop ⊢
    rw [hloop]
    cases hany : anyContent ms <;> cases t' <;> simp [Slog.hasContent, hany, hcJunk]
/-- the loop over the members: returns true at the first member with content -/
theorem hasContent_loop_matches_source (P : Par) : ∀ (ms : List SAttr) (F : Nat) (fl : Env), deps ms + 1 ≤ F →
    ∀ (i : Nat) (p0 : Val) (t : Option (Val × Val)),
    ∃ t', rangeRun (execS (X P) (exec (X P) F) hasContent_loop0.rbody) .blank (.loc "l0") (attrsV ms) i
        ⟨[("p0", p0)] ++ hcJunk t, fl⟩ =
      if anyContent ms then .ret [.bool true] ⟨[("p0", p0)] ++ hcJunk t', fl⟩ else .normal ⟨[("p0", p0)] ++ hcJunk t', fl⟩
  | [], F, fl, h, i, p0, t => ⟨t, by simp [attrsV, rangeRun, anyContent]⟩
  | m :: r, F, fl, h, i, p0, t => by
    have hm : dep m + 1 ≤ F := by simp only [deps] at h; omega
    have hr : deps r + 1 ≤ F := by simp only [deps] at h; omega
    have hcall : ∀ σ : State, retK σ [.loc "l1"] "hasContent"
        (exec (X P) F hasContent_body ⟨[("p0", attrV m)], fl⟩) = _ :=
      fun σ => retK_of_fin1 σ _ _ _ _ _ (hasContent_exec_matches_source P m F fl hm)
    obtain ⟨t', hrest⟩ := hasContent_loop_matches_source P r F fl hr (i + 1) p0 (some (attrV m, .bool (Slog.hasContent m)))
    cases hc : Slog.hasContent m with
    | true =>
      refine ⟨some (attrV m, .bool true), ?_⟩
      cases t <;> simp [attrsV, rangeRun, hasContent_loop0, Stmt.rbody, hcJunk, hcall, hc, anyContent, State.assign1, Env.set]
    | false =>
      refine ⟨t', ?_⟩
      rw [hc] at hrest
      cases t <;> simp [attrsV, rangeRun, hasContent_loop0, Stmt.rbody, hcJunk, hcall, hc, anyContent, State.assign1, Env.set] <;>
        simpa [hcJunk, hasContent_loop0, Stmt.rbody] using hrest
end

/-- `hasContent(attr)` is the model's `Slog.hasContent` on every attribute tree (fuel: the nesting depth + 1) -/
theorem hasContent_matches_source (P : Par) (a : SAttr) (fl : Env) (fuel : Nat) :
    run (X P) (fuel + dep a + 1) "hasContent" [attrV a] fl = .done [.bool (Slog.hasContent a)] fl :=
  run_of_fin (X P) _ _ Gen.TransSlog.hasContent [attrV a] _ _ _ rfl rfl
    (hasContent_exec_matches_source P a (fuel + dep a + 1) fl (by omega))

/-! ### `convertAttrToField` -/

/-- on a RESOLVED attribute (no LogValuer layer): the empty Attr and content-less groups are `zap.Skip()`, scalars go
    to the constructor of their kind, groups to `zap.Inline` (empty key) or `zap.Object` over their members -/
theorem convertAttrToField_resolved_matches_source (P : Par) (a : SAttr) (h0 : lvOf a = 0) (F : Nat) (hF : dep a + 2 ≤ F)
    (fl : Env) :
    (exec (X P) F convertAttrToField_body ⟨[("p0", attrV a)], fl⟩).fin = some ([convV a], fl) := by
  obtain ⟨F', rfl⟩ : ∃ F', F = F' + 1 := ⟨F - 1, by omega⟩
  rw [exec_succ]
  cases a with
  | leaf k lv l =>
    have hlv : lv = 0 := h0
    subst hlv
    rcases kind_ctor l.ty with ⟨hk, hc⟩ | ⟨hk, hc⟩ | ⟨hk, hc⟩ | ⟨hk, hc⟩ | ⟨hk, hc⟩ | ⟨hk, hc⟩ | ⟨hk, hc⟩ | ⟨hk, hc⟩ <;>
      simp [convertAttrToField_body, convV, isZeroAttr, lvOf, kind0, hk, hc, keyOf, (ext_ctor2 P _ _)]
  | nilv k lv =>
    have hlv : lv = 0 := h0
    subst hlv
    by_cases hk : k = ""
    · subst hk
      simp [convertAttrToField_body, convV, isZeroAttr, sbytes]
    · have hne : (sbytes k).isEmpty = false := by rw [sbytes_isEmpty]; simp [hk]
      simp [convertAttrToField_body, convV, isZeroAttr, lvOf, kind0, hne, hk, keyOf, (ext_ctor2 P _ _)]
  | group k lv ms =>
    have hlv : lv = 0 := h0
    subst hlv
    have hcall : ∀ σ : State, retK σ [.loc "l0"] "hasContent"
        (exec (X P) F' hasContent_body ⟨[("p0", attrV (.group k 0 ms))], fl⟩) = _ :=
      fun σ => retK_of_fin1 σ _ _ _ _ _ (hasContent_exec_matches_source P (.group k 0 ms) F' fl (by omega))
    by_cases hk : k = ""
    · subst hk
      cases hany : anyContent ms <;>
        simp [convertAttrToField_body, convV, isZeroAttr, lvOf, kind0, hcall, Slog.hasContent, hany, keyOf, sbytes,
          (ext_ctor2 P _ _)]
    · have hne : ¬ (sbytes k = []) := fun h => hk ((sbytes_eq_nil k).mp h)
      cases hany : anyContent ms <;>
        simp [convertAttrToField_body, convV, isZeroAttr, lvOf, kind0, hcall, Slog.hasContent, hany, keyOf, hk, hne,
          (ext_ctor2 P _ _)]

/-- `convertAttrToField(attr)` on EVERY attribute: a LogValuer is resolved (all layers) and converted -/
theorem convertAttrToField_exec_matches_source (P : Par) (a : SAttr) (F : Nat) (hF : dep a + 3 ≤ F) (fl : Env) :
    (exec (X P) F convertAttrToField_body ⟨[("p0", attrV a)], fl⟩).fin = some ([convV a], fl) := by
  by_cases h0 : lvOf a = 0
  · exact convertAttrToField_resolved_matches_source P a h0 F (by omega) fl
  · obtain ⟨F', rfl⟩ : ∃ F', F = F' + 1 := ⟨F - 1, by omega⟩
    have hpos : (0 : Int) < (lvOf a : Int) := by omega
    have hz : isZeroAttr a = false := by
      cases a <;> simp_all [isZeroAttr, lvOf]
    have hcall : ∀ σ : State, retK σ [.loc "l1"] "convertAttrToField"
        (exec (X P) F' convertAttrToField_body ⟨[("p0", attrV (resolved a))], fl⟩) = _ :=
      fun σ => retK_of_fin1 σ _ _ _ _ _
        (convertAttrToField_resolved_matches_source P (resolved a) (lvOf_resolved a) F' (by rw [dep_resolved]; omega) fl)
    have hposN : 0 < lvOf a := by omega
    rw [exec_succ]
    unfold convertAttrToField_body
    simp [hz, hpos, hposN, hcall, convV_resolved]

theorem convertAttrToField_matches_source (P : Par) (a : SAttr) (fl : Env) (fuel : Nat) :
    run (X P) (fuel + dep a + 3) "convertAttrToField" [attrV a] fl = .done [convV a] fl :=
  run_of_fin (X P) _ _ Gen.TransSlog.convertAttrToField [attrV a] _ _ _ rfl rfl
    (convertAttrToField_exec_matches_source P a (fuel + dep a + 3) (by omega) fl)

/-! ### `WithAttrs` -/

/-- loop variables of `WithAttrs` left behind: the attribute and its field -/
def waJunk : Option (Val × Val) → Env
  | none => []
  | some (a, f) => [("l2", a), ("l3", f)]

/-- the loop of `WithAttrs`: every attribute is converted; the pending groups are opened once, right before the first
    field that is not `zap.Skip()` -/
theorem WithAttrs_loop_matches_source (P : Par) (gs : List Bytes) (fl : Env)
    (hfl : Env.get "groups" fl = some (.list (gs.map Val.bytes))) (p0 : Val) :
    ∀ (as : List SAttr) (F : Nat), deps as + 3 ≤ F → ∀ (acc : List Val × Bool) (i : Nat) (t : Option (Val × Val)),
    ∃ t', rangeRun (execS (X P) (exec (X P) F) WithAttrs_loop0.rbody) .blank (.loc "l2") (attrsV as) i
        ⟨[("p0", p0), ("l0", .list acc.1), ("l1", .bool acc.2)] ++ waJunk t, fl⟩ =
      .normal ⟨[("p0", p0), ("l0", .list (as.foldl (attrStep gs) acc).1), ("l1", .bool (as.foldl (attrStep gs) acc).2)] ++
        waJunk t', fl⟩
  | [], F, hF, acc, i, t => ⟨t, by simp [attrsV, rangeRun]⟩
  | a :: r, F, hF, acc, i, t => by
    have ha : dep a + 3 ≤ F := by simp only [deps] at hF; omega
    have hr : deps r + 3 ≤ F := by simp only [deps] at hF; omega
    obtain ⟨F', rfl⟩ : ∃ F', F = F' + 1 := ⟨F - 1, by omega⟩
    have hconv : ∀ σ : State, retK σ [.loc "l3"] "convertAttrToField"
        (exec (X P) (F' + 1) convertAttrToField_body ⟨[("p0", attrV a)], fl⟩) = _ :=
      fun σ => retK_of_fin1 σ _ _ _ _ _ (convertAttrToField_exec_matches_source P a (F' + 1) ha fl)
    have hgrp : ∀ (σ : State) (fs : List Val), retK σ [.loc "l0"] "appendGroups"
        (exec (X P) (F' + 1) appendGroups_body ⟨[("p0", .list fs)], fl⟩) = _ :=
      fun σ fs => retK_of_fin1 σ _ _ _ _ _ (appendGroups_exec_matches_source P fs gs fl hfl F')
    obtain ⟨t', hrest⟩ := WithAttrs_loop_matches_source P gs fl hfl p0 r (F' + 1) hr (attrStep gs acc a) (i + 1)
      (some (attrV a, convV a))
    refine ⟨t', ?_⟩
    obtain ⟨fs, added⟩ := acc
    have hne := convV_ne_skip a
    cases gs with
    | nil =>
      have hst : attrStep [] (fs, added) a = (fs ++ [convV a], added) := by simp [attrStep]
      rw [hst] at hrest
      cases t <;> cases added <;>
        simp [attrsV, rangeRun, WithAttrs_loop0, Stmt.rbody, waJunk, hconv, hfl, hne, State.assign1, Env.set, attrStep] <;>
        simpa [waJunk, WithAttrs_loop0, Stmt.rbody, attrStep] using hrest
    | cons g gr =>
      have hpos : (0 : Int) < ((gr.length : Int) + 1) := by omega
      cases hsk : isSkip (convert a) <;> cases added <;>
        (simp only [attrStep, hsk] at hrest
         cases t <;>
          simp [attrsV, rangeRun, WithAttrs_loop0, Stmt.rbody, waJunk, hconv, hgrp, hfl, hne, hsk, hpos, State.assign1, Env.set,
            attrStep, List.append_assoc] <;>
          simpa [waJunk, WithAttrs_loop0, Stmt.rbody, attrStep, List.append_assoc] using hrest)

/-- `WithAttrs(attrs)`: the clone gets every field of the receiver; its core is `core.With(fields)` for the fields of
    `withAttrsSpec`; its pending groups are cleared exactly when they were opened -/
theorem WithAttrs_matches_source (P : Par) (as : List SAttr) (core : Val) (name : Bytes) (ac : Bool) (asa cs : Int)
    (gs : List Bytes) (self : Val) (ocore : Val) (oname : Bytes) (oac : Bool) (oasa ocs : Int) (ogroups : List Val)
    (oself : Val) (ev : List Val) (fuel : Nat) :
    run (X P) (fuel + deps as + 4) "WithAttrs" [.list (attrsV as)]
        (hFld core name ac asa cs (gs.map Val.bytes) self ocore oname oac oasa ocs ogroups oself ev) =
      .done [oself] (hFld core name ac asa cs (gs.map Val.bytes) self
        (P.coreWith core (.list (withAttrsSpec gs as).1)) name ac asa cs
        (if (withAttrsSpec gs as).2 then [] else gs.map Val.bytes) oself ev) := by
  refine run_of_fin (X P) _ _ Gen.TransSlog.WithAttrs [.list (attrsV as)] _ _ _ rfl rfl ?_
  show (exec (X P) (fuel + deps as + 4) WithAttrs_body ⟨[("p0", .list (attrsV as))], _⟩).fin = _
  rw [show fuel + deps as + 4 = (fuel + deps as + 3) + 1 by omega, exec_succ]
  obtain ⟨t', hloop⟩ := WithAttrs_loop_matches_source P gs
    (hFld core name ac asa cs (gs.map Val.bytes) self ocore oname oac oasa ocs ogroups oself ev) rfl (.list (attrsV as))
    as (fuel + deps as + 3) (by omega) ([], false) 0 none
  have hL : WithAttrs_loop0 = .range .blank (.loc "l2") (.loc "p0") WithAttrs_loop0.rbody := rfl
  have hb : WithAttrs_body = .seq WithAttrs_body.hd (.seq WithAttrs_body.tl.hd (.seq WithAttrs_loop0 WithAttrs_body.tl.tl.tl)) := rfl
  have h0 : ∀ (rec : Stmt → State → GoMini.Out) (fl : Env),
      execS (X P) rec WithAttrs_body.hd ⟨[("p0", .list (attrsV as))], fl⟩ =
        .normal ⟨[("p0", .list (attrsV as)), ("l0", .list [])], fl⟩ := by
    intro rec fl; simp [WithAttrs_body, Stmt.hd]
  have h1 : ∀ (rec : Stmt → State → GoMini.Out) (fl : Env),
      execS (X P) rec WithAttrs_body.tl.hd ⟨[("p0", .list (attrsV as)), ("l0", .list [])], fl⟩ =
        .normal ⟨[("p0", .list (attrsV as)), ("l0", .list []), ("l1", .bool false)], fl⟩ := by
    intro rec fl; simp [WithAttrs_body, Stmt.hd, Stmt.tl]
  rw [hb]
  simp only [execS_seq]
  rw [h0]; simp only [Out.andThen_normal, execS_seq]
  rw [h1]; simp only [Out.andThen_normal, execS_seq]
  rw [hL, execS_range]
  simp only [evalE_loc, Env.get, if_true, Res.out]
  simp only [waJunk, List.append_nil] at hloop
  rw [hloop]
  simp only [Out.andThen_normal]
  rw [show withAttrsSpec gs as = List.foldl (attrStep gs) ([], false) as from rfl]
  generalize List.foldl (attrStep gs) ([], false) as = R
  obtain ⟨fs, added⟩ := R
  cases t' <;> cases added <;> simp [Stmt.tl, WithAttrs_body]

/-- the fields and the flag are the model's `addAttrs` (`Slog.ins` over `converts`): Proofs/TransSlog.lean -/
theorem WithAttrs_is_addAttrs (pending : List String) (as : List SAttr) :
    ∃ items : List (String ⊕ SAttr),
      (withAttrsSpec (pending.map sbytes) as).1 = items.map itemV ∧
      (addAttrs ⟨[], pending⟩ (converts as)).ctx = items.map itemF ∧
      (addAttrs ⟨[], pending⟩ (converts as)).pending = (if (withAttrsSpec (pending.map sbytes) as).2 then [] else pending) :=
  withAttrsSpec_is_ins pending as

/-! ### `Handle`, up to the attribute iteration -/

/-- a `slog.Record` as the translated function reads it -/
def recV (level : Int) (time : Val) (msg : Bytes) (pc : Int) (attrs : Val) : Val :=
  .list [.int level, time, .bytes msg, .int pc, attrs]

def entOf (level : Int) (time : Val) (msg name : Bytes) : Val := .list [.int (levelSpec level), time, .bytes msg, .bytes name]

/-- the ONLY gate is `core.Check` on the mapped level: a nil answer returns nil and NOTHING is written -/
theorem Handle_rejected_matches_source (P : Par) (ctx : Val) (level : Int) (time : Val) (msg : Bytes) (pc : Int) (attrs : Val)
    (core : Val) (name : Bytes) (ac : Bool) (asa cs : Int) (groups : List Val) (self : Val) (ocore : Val) (oname : Bytes)
    (oac : Bool) (oasa ocs : Int) (ogroups : List Val) (oself : Val) (ev : List Val)
    (hck : P.check core (entOf level time msg name) = .list []) (fuel : Nat) :
    run (X P) (fuel + 2) "Handle" [ctx, recV level time msg pc attrs]
        (hFld core name ac asa cs groups self ocore oname oac oasa ocs ogroups oself ev) =
      .done [.list []] (hFld core name ac asa cs groups self ocore oname oac oasa ocs ogroups oself ev) := by
  refine run_of_fin (X P) _ _ Gen.TransSlog.Handle [ctx, recV level time msg pc attrs] _ _ _ rfl rfl ?_
  show (exec (X P) (fuel + 2) Handle_body ⟨[("p0", ctx), ("p1", recV level time msg pc attrs)], _⟩).fin = _
  have hlvl : ∀ σ : State, retK σ [.loc "l0"] "convertSlogLevel"
      (exec (X P) (fuel + 1) convertSlogLevel_body ⟨[("p0", .int level)],
        hFld core name ac asa cs groups self ocore oname oac oasa ocs ogroups oself ev⟩) = _ :=
    fun σ => retK_of_fin1 σ _ _ _ _ _ (convertSlogLevel_exec_matches_source P level _ fuel)
  rw [exec_succ]
  unfold entOf at hck
  simp [Handle_body, recV, hlvl, hck, State.assign1, Env.set]

/-- an accepted entry: the caller is taken from the record's PC (only with `addCaller`, a PC and a frame), the stack is
    taken from `addStackAt` up, and the entry is handed to the attribute iteration and `ce.Write` exactly once -/
theorem Handle_accepted_matches_source (P : Par) (ctx : Val) (level : Int) (time : Val) (msg : Bytes) (pc : Int) (attrs : Val)
    (core : Val) (name : Bytes) (ac : Bool) (asa cs : Int) (groups : List Val) (self : Val) (ocore : Val) (oname : Bytes)
    (oac : Bool) (oasa ocs : Int) (ogroups : List Val) (oself : Val) (ev : List Val)
    (c0 s0 r0 : Val) (hck : P.check core (entOf level time msg name) = .list [c0, s0, r0])
    (fpc : Int) (ffile fline ffn : Val) (more : Bool)
    (hfr : P.frame (.int pc) = (.list [.int fpc, ffile, fline, ffn], more))
    (hcs : -9223372036854775808 ≤ 3 + cs ∧ 3 + cs < 9223372036854775808) (fuel : Nat) :
    run (X P) (fuel + 2) "Handle" [ctx, recV level time msg pc attrs]
        (hFld core name ac asa cs groups self ocore oname oac oasa ocs ogroups oself ev) =
      .done [.list []] (hFld core name ac asa cs groups self ocore oname oac oasa ocs ogroups oself
        (ev ++ [.list [TransSlog.nm "Handler.convertAndWrite",
          .list [if ac && decide (pc ≠ 0) && decide (fpc ≠ 0) then .list [.bool true, .int fpc, ffile, fline, ffn] else c0,
                 if level ≥ asa then .bytes (P.take (3 + cs)) else s0, r0],
          recV level time msg pc attrs]])) := by
  refine run_of_fin (X P) _ _ Gen.TransSlog.Handle [ctx, recV level time msg pc attrs] _ _ _ rfl rfl ?_
  show (exec (X P) (fuel + 2) Handle_body ⟨[("p0", ctx), ("p1", recV level time msg pc attrs)], _⟩).fin = _
  have hlvl : ∀ σ : State, retK σ [.loc "l0"] "convertSlogLevel"
      (exec (X P) (fuel + 1) convertSlogLevel_body ⟨[("p0", .int level)],
        hFld core name ac asa cs groups self ocore oname oac oasa ocs ogroups oself ev⟩) = _ :=
    fun σ => retK_of_fin1 σ _ _ _ _ _ (convertSlogLevel_exec_matches_source P level _ fuel)
  have hw : wrap .int (3 + cs) = 3 + cs := wrap_int_id _ hcs.1 hcs.2
  have hnm : TransSlog.nm "Handler.convertAndWrite" = .bytes [72, 97, 110, 100, 108, 101, 114, 46, 99, 111, 110, 118, 101, 114, 116, 65, 110, 100, 87, 114, 105, 116, 101] :=
    congrArg Val.bytes (by decide +kernel)
  rw [exec_succ]
  unfold entOf at hck
  cases ac <;> by_cases hpc : pc = 0 <;> by_cases hf : fpc = 0 <;> by_cases hl : level ≥ asa <;>
    simp [Handle_body, recV, hlvl, hck, hfr, hw, hnm, hpc, hf, hl, State.assign1, Env.set]

end ZapVerif.C18
