import ZapVerif.Model.OpenBuild
import ZapVerif.Proofs.OpenBuild
import ZapVerif.Proofs.TransOpen
/-! # C19 — Open, Config.Build and std-log redirection are all-or-nothing; URLs validated -/
namespace ZapVerif.C19
open ZapVerif ZapVerif.OpenBuild

/-- `open`: for every vector of per-path outcomes — if any path fails, an error is returned, nothing is handed
    out and every sink that was opened is closed, each exactly once; if none fails, every configured destination
    is in the returned writer and nothing was closed. Sink `j` was opened iff path `j` opens. -/
theorem open_all_or_nothing (outs : List Bool) :
    ((∃ o ∈ outs, o = false) →
        (openAll outs).err = true ∧ (openAll outs).returned = [] ∧
        (openAll outs).closed = (openAll outs).opened ∧ (openAll outs).closed.Nodup) ∧
    ((∀ o ∈ outs, o = true) →
        (openAll outs).err = false ∧ (openAll outs).closed = [] ∧
        (openAll outs).returned = List.range outs.length) ∧
    (∀ j, j ∈ (openAll outs).opened ↔ outs[j]? = some true) := by
  refine ⟨?_, ?_, ?_⟩
  · rintro ⟨o, ho, rfl⟩
    have : outs.all id = false := by
      cases h : outs.all id with
      | false => rfl
      | true => have := (List.all_eq_true.mp h) _ ho; simp at this
    simp [openAll, this, (openedIdx_nodup 0 outs).1]
  · intro h
    have : outs.all id = true := List.all_eq_true.mpr (by simpa using h)
    simp [openAll, this, openedIdx_all 0 outs this, List.range_eq_range']
  · intro j
    have := mem_openedIdx 0 outs j
    simp only [openAll]
    split <;> simpa using this

/-- `Config.Build`: it either reaches the end — exactly when the encoder, the level and every output and error
    path are good, and then every sink is open and none was closed — or it returns an error at some stage having
    closed exactly the sinks it opened, each once. -/
theorem build_all_or_nothing (c : Cfg) :
    ((build c).stage = .done ↔ (c.enc = .ok ∧ c.level = true ∧ c.outs.all id = true ∧ c.errs.all id = true)) ∧
    ((build c).stage = .done →
        (build c).closedOut = [] ∧ (build c).closedErr = [] ∧
        (build c).openedOut = List.range c.outs.length ∧ (build c).openedErr = List.range c.errs.length) ∧
    ((build c).stage ≠ .done →
        (build c).closedOut = (build c).openedOut ∧ (build c).closedErr = (build c).openedErr ∧
        (build c).closedOut.Nodup ∧ (build c).closedErr.Nodup) := by
  unfold build
  by_cases he : c.enc = .ok
  · by_cases hl : c.level = true
    · by_cases ho : c.outs.all id = true
      · by_cases hr : c.errs.all id = true
        · simp [he, hl, openAll, ho, hr, openedIdx_all, List.range_eq_range']
        · simp [he, hl, openAll, ho, hr, (openedIdx_nodup 0 _).1]
      · simp [he, hl, openAll, ho, (openedIdx_nodup 0 _).1]
    · simp [he, hl]
  · simp [he]

/-- std-log redirection: an invalid level is an error and leaves flags, prefix and writer as they were; a valid
    level installs the zap writer with flags and prefix cleared, and the restore function brings both back -/
theorem redirect_unchanged_on_error (s : StdLog) (l : Int) :
    ((redirectAt s l).1 = true ↔ ¬(-1 ≤ l ∧ l ≤ 5)) ∧
    ((redirectAt s l).1 = true → (redirectAt s l).2.1 = s ∧ (redirectAt s l).2.2 = none) ∧
    ((redirectAt s l).1 = false →
        (redirectAt s l).2.1 = ⟨0, "", .zap l⟩ ∧
        ∃ r, (redirectAt s l).2.2 = some r ∧ r.flags = s.flags ∧ r.pref = s.pref) := by
  unfold redirectAt validLevel
  by_cases h1 : -1 ≤ l <;> by_cases h2 : l ≤ 5 <;> simp [h1, h2]

/-- the file factory opens `p` iff the URL has no user info, fragment, query or port, its host is empty or
    "localhost", and `p` is exactly the URL's path -/
theorem file_url_decision (u : URL) (p : String) :
    fileDecision u = some p ↔
      (u.user = false ∧ u.fragment = "" ∧ u.rawQuery = "" ∧ u.port = "" ∧
       (u.hostname = "" ∨ u.hostname = "localhost") ∧ p = u.path) := by
  unfold fileDecision
  by_cases h1 : u.user = true
  · simp [h1]
  · have h1' : u.user = false := by simpa using h1
    by_cases h2 : u.fragment = ""
    · by_cases h3 : u.rawQuery = ""
      · by_cases h4 : u.port = ""
        · by_cases h5 : u.hostname = ""
          · simp [h1', h2, h3, h4, h5]; exact eq_comm
          · by_cases h6 : u.hostname = "localhost"
            · simp [h1', h2, h3, h4, h6]; exact eq_comm
            · simp [h1', h2, h3, h4, h5, h6]
        · simp [h1', h2, h3, h4]
      · simp [h1', h2, h3]
    · simp [h1', h2]

/-- `newSink` reaches the file opener / a standard stream only for an absolute path (opened literally) or a URL
    that parsed, has scheme "" or "file" and passes the file factory; and then with exactly the URL's path -/
theorem newSink_target_only_if (isAbs : Bool) (raw : String) (parsed : Option (String × URL))
    (reg : String → Bool) (t : Target) (h : newSink isAbs raw parsed reg = .target t) :
    (isAbs = true ∧ t = pathTarget raw) ∨
    (isAbs = false ∧ ∃ scheme u, parsed = some (scheme, u) ∧ (scheme = "" ∨ scheme = "file") ∧
      fileDecision u = some u.path ∧ t = pathTarget u.path) := by
  cases isAbs with
  | true => left; simp only [newSink, if_true, SinkChoice.target.injEq] at h; exact ⟨rfl, h.symm⟩
  | false =>
    right
    simp only [newSink, Bool.false_eq_true, if_false] at h
    cases parsed with
    | none => simp at h
    | some su =>
      obtain ⟨scheme, u⟩ := su
      simp only at h
      by_cases hs : (if scheme = "" then "file" else scheme) = "file"
      · simp only [hs, if_true] at h
        cases hd : fileDecision u with
        | none => simp [hd] at h
        | some p =>
          simp only [hd, SinkChoice.target.injEq] at h
          have hp : p = u.path := ((file_url_decision u p).mp hd).2.2.2.2.2
          refine ⟨rfl, scheme, u, rfl, ?_, by rw [hd, hp], by rw [← h, hp]⟩
          by_cases h0 : scheme = ""
          · exact Or.inl h0
          · simp [h0] at hs; exact Or.inr hs
      · simp only [hs, if_false] at h
        cases hr : reg (if scheme = "" then "file" else scheme) <;> simp [hr] at h

/-- schemes are matched case-insensitively: two spellings that differ only in ASCII letter case are accepted
    or rejected together, normalise to the same registry key, and resolve to the same factory -/
theorem scheme_case_insensitive (a b : Bytes) (h : lowerBytes a = lowerBytes b) (reg : Reg) :
    normalizeScheme a = normalizeScheme b ∧ resolveSink reg a = resolveSink reg b := by
  constructor
  · rw [← normalize_lower a, ← normalize_lower b, h]
  · simp [resolveSink, h]

/-- what `normalizeScheme` accepts is an RFC 3986 scheme in ASCII, and the key is its lower-case form -/
theorem normalize_wellformed (s n : Bytes) (h : normalizeScheme s = some n) :
    n = lowerBytes s ∧ (∃ c r, s = c :: r ∧ isLetter c = true ∧ r.all schemeRest = true) ∧ s.all (· < 128) = true := by
  cases s with
  | nil => simp [normalizeScheme] at h
  | cons c r =>
    simp only [normalizeScheme] at h
    by_cases hc : (isLetter c && r.all schemeRest) = true
    · simp only [hc, if_true, Option.some.injEq] at h
      simp only [Bool.and_eq_true] at hc
      refine ⟨h.symm, ⟨c, r, rfl, hc.1, hc.2⟩, ?_⟩
      have k1 : ∀ c : UInt8, isLetter c = true → (decide (c < 128)) = true := by apply all256; decide +kernel
      have k2 : ∀ c : UInt8, schemeRest c = true → (decide (c < 128)) = true := by apply all256; decide +kernel
      simp only [List.all_cons, Bool.and_eq_true, k1 c hc.1, true_and]
      rw [List.all_eq_true] at hc ⊢
      intro x hx; exact k2 x (hc.2 x hx)
    · simp [hc] at h

/-- registering an empty, malformed or already registered scheme is an error and leaves the registry unchanged;
    otherwise the scheme is added under its normalised key and everything registered before still resolves as before -/
theorem register_rejects_unchanged (reg : Reg) (name : Bytes) (id : Nat) :
    ((registerSink reg name id).1 = true ↔
        (name = [] ∨ normalizeScheme name = none ∨ ∃ n v, normalizeScheme name = some n ∧ reg.lookup n = some v)) ∧
    ((registerSink reg name id).1 = true → (registerSink reg name id).2 = reg) ∧
    ((registerSink reg name id).1 = false →
        resolveSink (registerSink reg name id).2 name = some id ∧
        ∀ k v, reg.lookup k = some v → (registerSink reg name id).2.lookup k = some v) := by
  unfold registerSink
  by_cases h0 : name = []
  · simp [h0]
  · simp only [h0, if_false, false_or]
    cases hn : normalizeScheme name with
    | none => simp
    | some n =>
      simp only [reduceCtorEq, false_or, Option.some.injEq]
      cases hl : reg.lookup n with
      | some v => exact ⟨by simpa using ⟨v, hl⟩, by simp, by simp⟩
      | none =>
        have hnl : n = lowerBytes name := (normalize_wellformed name n hn).1
        simp only [Option.isSome_none, Bool.false_eq_true, if_false]
        refine ⟨?_, by simp, fun _ => ⟨?_, ?_⟩⟩
        · constructor
          · intro h; exact absurd h (by simp)
          · rintro ⟨n', v, h1, h2⟩; subst h1; rw [hl] at h2; exact absurd h2 (by simp)
        · show resolveSink (reg ++ [(n, id)]) name = some id
          unfold resolveSink
          rw [← hnl, lookup_append_none _ _ _ _ hl]; simp
        · intro k v hk; exact lookup_append_some _ _ _ _ _ hk

/-- the same for encoder names (taken literally: only empty and duplicate names are rejected) -/
theorem register_encoder_rejects_unchanged (reg : Reg) (name : Bytes) (id : Nat) :
    ((registerEncoder reg name id).1 = true ↔ (name = [] ∨ ∃ v, reg.lookup name = some v)) ∧
    ((registerEncoder reg name id).1 = true → (registerEncoder reg name id).2 = reg) ∧
    ((registerEncoder reg name id).1 = false →
        resolveEncoder (registerEncoder reg name id).2 name = some id ∧
        ∀ k v, reg.lookup k = some v → (registerEncoder reg name id).2.lookup k = some v) := by
  unfold registerEncoder
  by_cases h0 : name = []
  · simp [h0]
  · simp only [h0, if_false, false_or]
    cases hl : reg.lookup name with
    | some v => exact ⟨by simp, by simp, by simp⟩
    | none =>
      simp only [Option.isSome_none, Bool.false_eq_true, if_false]
      refine ⟨by simp, by simp, fun _ => ⟨?_, ?_⟩⟩
      · show resolveEncoder (reg ++ [(name, id)]) name = some id
        unfold resolveEncoder
        rw [lookup_append_none _ _ _ _ hl]; simp [h0]
      · intro k v hk; exact lookup_append_some _ _ _ _ _ hk

/-! ## witnesses for the behaviour before the repairs -/

/-- F16: with good sinks and no level the old Build returned "missing Level" with everything open, nothing closed -/
theorem unrepaired_build_leaks :
    (buildOld ⟨.ok, false, [true, true], [true]⟩).stage = .level ∧
    (buildOld ⟨.ok, false, [true, true], [true]⟩).openedOut = [0, 1] ∧
    (buildOld ⟨.ok, false, [true, true], [true]⟩).openedErr = [0] ∧
    (buildOld ⟨.ok, false, [true, true], [true]⟩).closedOut = [] ∧
    (buildOld ⟨.ok, false, [true, true], [true]⟩).closedErr = [] := by decide

/-- F17: an invalid level is an error, yet flags and prefix are already cleared -/
theorem unrepaired_redirect_clobbers :
    (redirectAtOld ⟨3, "p: ", .prev⟩ 99).1 = true ∧ (redirectAtOld ⟨3, "p: ", .prev⟩ 99).2.1 = ⟨0, "", .prev⟩ := by decide

/-- F18: for any lower-casing function that, like Go's `strings.ToLower`, maps the Kelvin sign U+212A to `k`,
    the old normalisation accepts the non-ASCII name; the repaired one rejects it whatever follows -/
theorem unrepaired_accepts_kelvin (toLower : Bytes → Bytes) (h : toLower [0xE2, 0x84, 0xAA] = [0x6B]) :
    normalizeSchemeOld toLower [0xE2, 0x84, 0xAA] = some [0x6B] ∧ normalizeScheme [0xE2, 0x84, 0xAA] = none := by
  constructor
  · simp only [normalizeSchemeOld, h]; decide
  · decide

/-! ## non-vacuity -/

example : (openAll [true, false, true]) = ⟨true, [0, 2], [0, 2], []⟩ := by decide
example : (build ⟨.ok, true, [true, true], [true]⟩).stage = .done := by decide
example : (build ⟨.ok, true, [true, true], [true, false]⟩) = ⟨.errout, [0, 1], [0], [0, 1], [0]⟩ := by decide
example : fileDecision ⟨false, "", "", "", "localhost", "/var/log/x"⟩ = some "/var/log/x" := by decide
example : normalizeScheme "Zap+Log.v2".toUTF8.toList = some "zap+log.v2".toUTF8.toList := by decide +kernel
example : (registerSink [("zap".toUTF8.toList, 0)] "ZAP".toUTF8.toList 1).1 = true := by decide +kernel

end ZapVerif.C19

/-! ## opening and building ARE the source (table `Gen/TransOpen.lean`)

The bodies of `open`, `Open`, `CombineWriteSyncers` (writer.go), `Config.Build`, `buildEncoder`, `buildOptions`,
`openSinks` (config.go), `newFileSinkFromPath`, `newFileSinkFromURL`, `newSink`, `normalizeScheme` (sink.go) and
`redirectStdLogAt` (global.go), translated mechanically, are interpreted with the registry, the OS opener, `url.Parse`,
`newEncoder`, `Close`, the key order of a map, `sort.Strings`, `strings.ToLower` and the standard logger as parameters /
recorded intrinsics; options, cores, loggers and combined syncers are free constructors.  `Build` is COMPOSED: it runs
the translated `buildEncoder`, `openSinks` → `Open` → `open` (down to the registry calls) and `buildOptions`.  What is
proved is the ORDER and the CLEANUP — which calls happen on which path — and that these are the decision models of
`Model/OpenBuild.lean`: `open_is_openAll`, `Build_is_build`, `urlOK_is_fileDecision`, `normalizeScheme_is_model`;
`redirectStdLogAt_matches_source` states `redirectAt` directly.

A closure VALUE is `[its source text, the captured locals and receiver fields]`; the texts (`closeText`, `samplerText`)
are read off the generated terms, so editing a closure's text does not break the theorems, while a call of the closure
inside the function is its body, inlined (the cleanup loop of `open`). -/
namespace ZapVerif.C19
set_option linter.unusedSimpArgs false
open ZapVerif ZapVerif.GoMini ZapVerif.TransOpen ZapVerif.Gen.TransOpen

/-- the standard streams are recognised by NAME only; every other path goes to the opener, once -/
def pathSpec (P : Par) (path : Bytes) (ev : List Val) : (List Val × List Val) × List Val :=
  if path = [115, 116, 100, 111, 117, 116] then (([.int 1], []), ev)
  else if path = [115, 116, 100, 101, 114, 114] then (([.int 2], []), ev)
  else (P.openFile (.bytes path), ev ++ [.list [TransOpen.nm "sinkRegistry.openFile", .bytes path, .int 1089, .int 438]])

theorem newFileSinkFromPath_exec_matches_source (P : Par) (path : Bytes) (fl0 : Env) (ev : List Val) (fuel : Nat) :
    (exec (X P) (fuel + 1) newFileSinkFromPath_body ⟨[("p0", .bytes path)], ("ev", .list ev) :: fl0⟩).fin =
      some ([.list (pathSpec P path ev).1.1, .list (pathSpec P path ev).1.2], ("ev", .list (pathSpec P path ev).2) :: fl0) := by
  rw [exec_succ]
  by_cases h1 : path = [115, 116, 100, 111, 117, 116]
  · subst h1; simp [newFileSinkFromPath_body, pathSpec]
  · by_cases h2 : path = [115, 116, 100, 101, 114, 114]
    · subst h2; simp [newFileSinkFromPath_body, pathSpec]
    · have e1 : (path == [115, 116, 100, 111, 117, 116]) = false := by simpa using h1
      have e2 : (path == [115, 116, 100, 101, 114, 114]) = false := by simpa using h2
      simp [newFileSinkFromPath_body, pathSpec, h1, h2, nm_openFile]

theorem newFileSinkFromPath_matches_source (P : Par) (path : Bytes) (fl0 : Env) (ev : List Val) (fuel : Nat) :
    run (X P) (fuel + 1) "newFileSinkFromPath" [.bytes path] (("ev", .list ev) :: fl0) =
      .done [.list (pathSpec P path ev).1.1, .list (pathSpec P path ev).1.2] (("ev", .list (pathSpec P path ev).2) :: fl0) :=
  run_of_fin (X P) _ _ Gen.TransOpen.newFileSinkFromPath [.bytes path] _ _ _ rfl rfl
    (newFileSinkFromPath_exec_matches_source P path fl0 ev fuel)

/-- `newFileSinkFromURL`: user info, fragment, query, port, a host other than localhost are each refused (in this order,
    nothing is opened); otherwise the PATH is handed to `newFileSinkFromPath` -/
def urlOK (P : Par) (u : Val) (user : List Val) (fragment rawQuery : Bytes) : Bool :=
  user.isEmpty && fragment.isEmpty && rawQuery.isEmpty && (P.port u).isEmpty &&
    ((P.hostname u).isEmpty || P.hostname u == [108, 111, 99, 97, 108, 104, 111, 115, 116])

theorem newFileSinkFromURL_matches_source (P : Par) (scheme : Bytes) (user : List Val) (fragment rawQuery path : Bytes) (rest : Val)
    (fl0 : Env) (ev : List Val) (fuel : Nat) :
    ∃ res fl, run (X P) (fuel + 2) "newFileSinkFromURL" [urlV scheme user fragment rawQuery path rest] (("ev", .list ev) :: fl0) =
        .done res fl ∧
      (if urlOK P (urlV scheme user fragment rawQuery path rest) user fragment rawQuery then
         res = [.list (pathSpec P path ev).1.1, .list (pathSpec P path ev).1.2] ∧ fl = ("ev", .list (pathSpec P path ev).2) :: fl0
       else (∃ e, res = [.list [], .list [e]]) ∧ fl = ("ev", .list ev) :: fl0) := by
  have hcall : ∀ σ : State, retK σ [.loc "l1", .loc "l2"] "newFileSinkFromPath"
      (exec (X P) (fuel + 1) newFileSinkFromPath_body ⟨[("p0", .bytes path)], ("ev", .list ev) :: fl0⟩) = _ :=
    fun σ => retK_of_fin2 σ _ _ _ _ _ _ _ (newFileSinkFromPath_exec_matches_source P path fl0 ev fuel)
  have hfin : ∀ (res : List Val) (fl : Env),
      (exec (X P) (fuel + 2) newFileSinkFromURL_body
        ⟨[("p0", urlV scheme user fragment rawQuery path rest)], ("ev", .list ev) :: fl0⟩).fin = some (res, fl) →
      run (X P) (fuel + 2) "newFileSinkFromURL" [urlV scheme user fragment rawQuery path rest] (("ev", .list ev) :: fl0) =
        .done res fl :=
    fun res fl h => run_of_fin (X P) _ _ Gen.TransOpen.newFileSinkFromURL _ _ _ _ rfl rfl h
  have hexec : (exec (X P) (fuel + 2) newFileSinkFromURL_body
        ⟨[("p0", urlV scheme user fragment rawQuery path rest)], ("ev", .list ev) :: fl0⟩).fin =
      (if urlOK P (urlV scheme user fragment rawQuery path rest) user fragment rawQuery then
        some ([.list (pathSpec P path ev).1.1, .list (pathSpec P path ev).1.2], ("ev", .list (pathSpec P path ev).2) :: fl0)
       else (exec (X P) (fuel + 2) newFileSinkFromURL_body
        ⟨[("p0", urlV scheme user fragment rawQuery path rest)], ("ev", .list ev) :: fl0⟩).fin) ∧
      (urlOK P (urlV scheme user fragment rawQuery path rest) user fragment rawQuery = false →
        ∃ e, (exec (X P) (fuel + 2) newFileSinkFromURL_body
          ⟨[("p0", urlV scheme user fragment rawQuery path rest)], ("ev", .list ev) :: fl0⟩).fin =
          some ([.list [], .list [e]], ("ev", .list ev) :: fl0)) := by
    rw [exec_succ]
    cases user with
    | cons x xs =>
      have hp : ¬ ((xs.length : Int) + 1 = 0) := by omega
      constructor
      · simp [urlOK]
      · intro _; exact ⟨_, by simp [newFileSinkFromURL_body, urlV, hp, errV] <;> rfl⟩
    | nil =>
      cases fragment with
      | cons x xs =>
        constructor
        · simp [urlOK]
        · intro _; exact ⟨_, by simp [newFileSinkFromURL_body, urlV, errV] <;> rfl⟩
      | nil =>
        cases rawQuery with
        | cons x xs =>
          constructor
          · simp [urlOK]
          · intro _; exact ⟨_, by simp [newFileSinkFromURL_body, urlV, errV] <;> rfl⟩
        | nil =>
          cases hport : P.port (urlV scheme [] [] [] path rest) with
          | cons x xs =>
            constructor
            · simp [urlOK, hport]
            · intro _; exact ⟨_, by simp only [urlV] at hport; simp [newFileSinkFromURL_body, urlV, errV, hport] <;> rfl⟩
          | nil =>
            have hport' : P.port (.list [.bytes scheme, .list [], .bytes [], .bytes [], .bytes path, rest]) = [] := hport
            by_cases hh : (P.hostname (urlV scheme [] [] [] path rest)).isEmpty ||
                P.hostname (urlV scheme [] [] [] path rest) == [108, 111, 99, 97, 108, 104, 111, 115, 116]
            · have hh' := hh
              simp only [urlV] at hh'
              constructor
              · simp only [urlOK, hport, hh, List.isEmpty_nil, Bool.and_self, Bool.and_true, if_true]
                rcases Bool.or_eq_true_iff.mp hh' with h1 | h2
                · have h1' : P.hostname (.list [.bytes scheme, .list [], .bytes [], .bytes [], .bytes path, rest]) = [] := by
                    simpa using h1
                  simp [newFileSinkFromURL_body, urlV, hport', h1', hcall]
                · have h2' : P.hostname (.list [.bytes scheme, .list [], .bytes [], .bytes [], .bytes path, rest]) =
                      [108, 111, 99, 97, 108, 104, 111, 115, 116] := by simpa using h2
                  simp [newFileSinkFromURL_body, urlV, hport', h2', hcall]
              · intro hf; simp [urlOK, hport, hh] at hf
            · constructor
              · simp [urlOK, hport, hh]
              · intro _
                have hh' := hh
                simp only [urlV, Bool.or_eq_true, not_or] at hh'
                obtain ⟨h1, h2⟩ := hh'
                have h1' : ¬ P.hostname (.list [.bytes scheme, .list [], .bytes [], .bytes [], .bytes path, rest]) = [] := by
                  simpa using h1
                have h2' : ¬ P.hostname (.list [.bytes scheme, .list [], .bytes [], .bytes [], .bytes path, rest]) =
                    [108, 111, 99, 97, 108, 104, 111, 115, 116] := by simpa using h2
                exact ⟨_, by simp [newFileSinkFromURL_body, urlV, errV, hport', h1', h2'] <;> rfl⟩
  obtain ⟨h1, h2⟩ := hexec
  by_cases hok : urlOK P (urlV scheme user fragment rawQuery path rest) user fragment rawQuery
  · rw [hok] at h1; simp only [if_true] at h1
    exact ⟨_, _, hfin _ _ h1, by simp [hok]⟩
  · have hok' : urlOK P (urlV scheme user fragment rawQuery path rest) user fragment rawQuery = false := by simpa using hok
    obtain ⟨e, he⟩ := h2 hok'
    exact ⟨_, _, hfin _ _ he, by simp [hok']⟩

/-- **urlOK_is_fileDecision**: the acceptance condition of the translated `newFileSinkFromURL` is the hand model's
    `OpenBuild.fileDecision` on a URL record with the same emptiness facts -/
theorem urlOK_is_fileDecision (P : Par) (uV : Val) (user : List Val) (fragment rawQuery : Bytes) (u : OpenBuild.URL)
    (h1 : u.user = !user.isEmpty) (h2 : u.fragment = "" ↔ fragment = []) (h3 : u.rawQuery = "" ↔ rawQuery = [])
    (h4 : u.port = "" ↔ P.port uV = []) (h5 : u.hostname = "" ↔ P.hostname uV = [])
    (h6 : u.hostname = "localhost" ↔ P.hostname uV = [108, 111, 99, 97, 108, 104, 111, 115, 116]) :
    urlOK P uV user fragment rawQuery = (OpenBuild.fileDecision u).isSome := by
  simp only [urlOK, OpenBuild.fileDecision, h1]
  cases user with
  | cons x xs => simp
  | nil =>
    by_cases f2 : fragment = []
    · by_cases f3 : rawQuery = []
      · by_cases f4 : P.port uV = []
        · by_cases f5 : P.hostname uV = []
          · simp [f2, f3, f4, f5, h2.mpr f2, h3.mpr f3, h4.mpr f4, h5.mpr f5]
          · by_cases f6 : P.hostname uV = [108, 111, 99, 97, 108, 104, 111, 115, 116]
            · simp [f2, f3, f4, f6, h2.mpr f2, h3.mpr f3, h4.mpr f4, h6.mpr f6]
            · have n5 : ¬ u.hostname = "" := fun h => f5 (h5.mp h)
              have n6 : ¬ u.hostname = "localhost" := fun h => f6 (h6.mp h)
              simp [f2, f3, f4, f5, f6, h2.mpr f2, h3.mpr f3, h4.mpr f4, n5, n6]
        · have n4 : ¬ u.port = "" := fun h => f4 (h4.mp h)
          simp [f2, f3, f4, h2.mpr f2, h3.mpr f3, n4]
      · have n3 : ¬ u.rawQuery = "" := fun h => f3 (h3.mp h)
        simp [f2, f3, h2.mpr f2, n3]
    · have n2 : ¬ u.fragment = "" := fun h => f2 (h2.mp h)
      simp [f2, n2]

/-- `newSink(rawURL)`: an absolute path bypasses URL parsing; a parse error opens nothing; an empty scheme means `file`;
    the factory map is read under the registry's mutex; a missing scheme is `errSinkNotFound`; the factory is called
    once, after the mutex was released -/
theorem newSink_matches_source (P : Par) (raw : Bytes) (mu fac : Val) (ev : List Val)
    (scheme : Bytes) (user : List Val) (fragment rawQuery path : Bytes) (rest : Val) (perr : List Val)
    (hparse : P.parse (.bytes raw) = (urlV scheme user fragment rawQuery path rest, perr)) (fuel : Nat) :
    ∃ res ev', run (X P) (fuel + 2) "newSink" [.bytes raw] [("ev", .list ev), ("mu", mu), ("factories", fac)] =
        .done res [("ev", .list ev'), ("mu", mu), ("factories", fac)] ∧
      (if P.isAbs (.bytes raw) then
         res = [.list (pathSpec P raw ev).1.1, .list (pathSpec P raw ev).1.2] ∧ ev' = (pathSpec P raw ev).2
       else if !perr.isEmpty then (∃ e, res = [.list [], .list [e]]) ∧ ev' = ev
       else
         let u' := urlV (if scheme.isEmpty then [102, 105, 108, 101] else scheme) user fragment rawQuery path rest
         let sch : Val := .bytes (if scheme.isEmpty then [102, 105, 108, 101] else scheme)
         if (P.lookup fac sch).2 then
           res = [.list (P.factory (P.lookup fac sch).1 u').1, .list (P.factory (P.lookup fac sch).1 u').2] ∧
           ev' = ev ++ [.list [TransOpen.nm "Mutex.Lock", mu], .list [TransOpen.nm "Mutex.Unlock", mu],
                        .list [TransOpen.nm "SinkFactory.call", (P.lookup fac sch).1, u']]
         else res = [.list [], errV "errSinkNotFound" [sch]] ∧
           ev' = ev ++ [.list [TransOpen.nm "Mutex.Lock", mu], .list [TransOpen.nm "Mutex.Unlock", mu]]) := by
  have hcall : ∀ σ : State, retK σ [.loc "l0", .loc "l1"] "newFileSinkFromPath"
      (exec (X P) (fuel + 1) newFileSinkFromPath_body ⟨[("p0", .bytes raw)], ("ev", .list ev) :: [("mu", mu), ("factories", fac)]⟩) = _ :=
    fun σ => retK_of_fin2 σ _ _ _ _ _ _ _ (newFileSinkFromPath_exec_matches_source P raw _ ev fuel)
  have hfin : ∀ (res : List Val) (fl : Env),
      (exec (X P) (fuel + 2) newSink_body ⟨[("p0", .bytes raw)], [("ev", .list ev), ("mu", mu), ("factories", fac)]⟩).fin =
        some (res, fl) →
      run (X P) (fuel + 2) "newSink" [.bytes raw] [("ev", .list ev), ("mu", mu), ("factories", fac)] = .done res fl :=
    fun res fl h => run_of_fin (X P) _ _ Gen.TransOpen.newSink _ _ _ _ rfl rfl h
  cases habs : P.isAbs (.bytes raw) with
  | true =>
    have h : (exec (X P) (fuel + 2) newSink_body ⟨[("p0", .bytes raw)], [("ev", .list ev), ("mu", mu), ("factories", fac)]⟩).fin =
        some ([.list (pathSpec P raw ev).1.1, .list (pathSpec P raw ev).1.2], [("ev", .list ((pathSpec P raw ev).2)), ("mu", mu), ("factories", fac)]) := by
      rw [exec_succ]
      simp [newSink_body, habs, hcall]
    exact ⟨_, _, hfin _ _ h, by simp [habs]⟩
  | false =>
    cases perr with
    | cons e es =>
      have hp : ¬ ((es.length : Int) + 1 = 0) := by omega
      have h : (exec (X P) (fuel + 2) newSink_body ⟨[("p0", .bytes raw)], [("ev", .list ev), ("mu", mu), ("factories", fac)]⟩).fin =
          some ([.list [], errV "fmt.Errorf" [.bytes [99, 97, 110, 39, 116, 32, 112, 97, 114, 115, 101, 32, 37, 113, 32, 97, 115, 32, 97, 32, 85, 82, 76, 58, 32, 37, 118], .bytes raw, .list (e :: es)]], [("ev", .list (ev)), ("mu", mu), ("factories", fac)]) := by
        rw [exec_succ]
        simp [newSink_body, habs, hparse, hp, errV]
      exact ⟨_, _, hfin _ _ h, by simp [habs, errV]⟩
    | nil =>
      cases scheme with
      | nil =>
        cases hl : (P.lookup fac (.bytes [102, 105, 108, 101])).2 with
        | true =>
          have h : (exec (X P) (fuel + 2) newSink_body ⟨[("p0", .bytes raw)], [("ev", .list ev), ("mu", mu), ("factories", fac)]⟩).fin =
              some ([.list (P.factory (P.lookup fac (.bytes [102, 105, 108, 101])).1 (urlV [102, 105, 108, 101] user fragment rawQuery path rest)).1, .list (P.factory (P.lookup fac (.bytes [102, 105, 108, 101])).1 (urlV [102, 105, 108, 101] user fragment rawQuery path rest)).2], [("ev", .list (ev ++ [.list [TransOpen.nm "Mutex.Lock", mu], .list [TransOpen.nm "Mutex.Unlock", mu], .list [TransOpen.nm "SinkFactory.call", (P.lookup fac (.bytes [102, 105, 108, 101])).1, urlV [102, 105, 108, 101] user fragment rawQuery path rest]])), ("mu", mu), ("factories", fac)]) := by
            rw [exec_succ]
            simp [newSink_body, habs, hparse, urlV, hl, nm_lock, nm_unlock, nm_factory]
          exact ⟨_, _, hfin _ _ h, by simp [habs, hl]⟩
        | false =>
          have h : (exec (X P) (fuel + 2) newSink_body ⟨[("p0", .bytes raw)], [("ev", .list ev), ("mu", mu), ("factories", fac)]⟩).fin =
              some ([.list [], errV "errSinkNotFound" [.bytes [102, 105, 108, 101]]], [("ev", .list (ev ++ [.list [TransOpen.nm "Mutex.Lock", mu], .list [TransOpen.nm "Mutex.Unlock", mu]])), ("mu", mu), ("factories", fac)]) := by
            rw [exec_succ]
            simp [newSink_body, habs, hparse, urlV, hl, nm_lock, nm_unlock, errV]
          exact ⟨_, _, hfin _ _ h, by simp [habs, hl]⟩
      | cons c cs =>
        cases hl : (P.lookup fac (.bytes (c :: cs))).2 with
        | true =>
          have h : (exec (X P) (fuel + 2) newSink_body ⟨[("p0", .bytes raw)], [("ev", .list ev), ("mu", mu), ("factories", fac)]⟩).fin =
              some ([.list (P.factory (P.lookup fac (.bytes (c :: cs))).1 (urlV (c :: cs) user fragment rawQuery path rest)).1, .list (P.factory (P.lookup fac (.bytes (c :: cs))).1 (urlV (c :: cs) user fragment rawQuery path rest)).2], [("ev", .list (ev ++ [.list [TransOpen.nm "Mutex.Lock", mu], .list [TransOpen.nm "Mutex.Unlock", mu], .list [TransOpen.nm "SinkFactory.call", (P.lookup fac (.bytes (c :: cs))).1, urlV (c :: cs) user fragment rawQuery path rest]])), ("mu", mu), ("factories", fac)]) := by
            rw [exec_succ]
            simp [newSink_body, habs, hparse, urlV, hl, nm_lock, nm_unlock, nm_factory]
          exact ⟨_, _, hfin _ _ h, by simp [habs, hl]⟩
        | false =>
          have h : (exec (X P) (fuel + 2) newSink_body ⟨[("p0", .bytes raw)], [("ev", .list ev), ("mu", mu), ("factories", fac)]⟩).fin =
              some ([.list [], errV "errSinkNotFound" [.bytes (c :: cs)]], [("ev", .list (ev ++ [.list [TransOpen.nm "Mutex.Lock", mu], .list [TransOpen.nm "Mutex.Unlock", mu]])), ("mu", mu), ("factories", fac)]) := by
            rw [exec_succ]
            simp [newSink_body, habs, hparse, urlV, hl, nm_lock, nm_unlock, errV]
          exact ⟨_, _, hfin _ _ h, by simp [habs, hl]⟩

/-- `redirectStdLogAt`: the level is validated FIRST; on an error the standard logger (flags, prefix, output) is exactly
    as it was; otherwise flags and prefix are zeroed, the output is the zap writer, and the restore function handed back
    has captured the ORIGINAL flags and prefix -/
theorem redirectStdLogAt_matches_source (P : Par) (lg : Val) (level : Int) (flags : Int) (pref : Bytes) (out : Val)
    (fuel : Nat) :
    ∃ res fl, run (X P) (fuel + 1) "redirectStdLogAt" [lg, .int level]
        [("std.flags", .int flags), ("std.prefix", .bytes pref), ("std.out", out)] = .done res fl ∧
      (if P.levelOK level then
         (∃ text lf, res = [.list [text, .int flags, .bytes pref], .list []] ∧
           fl = [("std.flags", .int 0), ("std.prefix", .bytes []), ("std.out", .list [TransOpen.nm "loggerWriter", lf])])
       else (∃ e, res = [.list [], .list [e]]) ∧
         fl = [("std.flags", .int flags), ("std.prefix", .bytes pref), ("std.out", out)]) := by
  have hfin : ∀ (res : List Val) (fl : Env),
      (exec (X P) (fuel + 1) redirectStdLogAt_body ⟨[("p0", lg), ("p1", .int level)],
        [("std.flags", .int flags), ("std.prefix", .bytes pref), ("std.out", out)]⟩).fin = some (res, fl) →
      run (X P) (fuel + 1) "redirectStdLogAt" [lg, .int level]
        [("std.flags", .int flags), ("std.prefix", .bytes pref), ("std.out", out)] = .done res fl :=
    fun res fl h => run_of_fin (X P) _ _ Gen.TransOpen.redirectStdLogAt _ _ _ _ rfl rfl h
  cases hok : P.levelOK level with
  | true =>
    have h : ∃ text lf, (exec (X P) (fuel + 1) redirectStdLogAt_body ⟨[("p0", lg), ("p1", .int level)],
        [("std.flags", .int flags), ("std.prefix", .bytes pref), ("std.out", out)]⟩).fin =
        some ([.list [text, .int flags, .bytes pref], .list []],
          [("std.flags", .int 0), ("std.prefix", .bytes []), ("std.out", .list [TransOpen.nm "loggerWriter", lf])]) := by
      generalize hE : (exec (X P) (fuel + 1) redirectStdLogAt_body ⟨[("p0", lg), ("p1", .int level)],
        [("std.flags", .int flags), ("std.prefix", .bytes pref), ("std.out", out)]⟩).fin = E
      rw [exec_succ] at hE
      simp [redirectStdLogAt_body, hok] at hE
      subst hE
      exact ⟨_, _, rfl⟩
    obtain ⟨text, lf, h⟩ := h
    exact ⟨_, _, hfin _ _ h, by simp⟩
  | false =>
    have h : (exec (X P) (fuel + 1) redirectStdLogAt_body ⟨[("p0", lg), ("p1", .int level)],
        [("std.flags", .int flags), ("std.prefix", .bytes pref), ("std.out", out)]⟩).fin =
        some ([.list [], errV "levelToFunc" [.int level]],
          [("std.flags", .int flags), ("std.prefix", .bytes pref), ("std.out", out)]) := by
      rw [exec_succ]
      simp [redirectStdLogAt_body, hok, errV]
    exact ⟨_, _, hfin _ _ h, by simp [errV]⟩

/-! ### `open`: every path is tried; on any failure everything that was opened is closed -/

structure OA where
  w : List Val
  c : List Val
  e : List Val
  ev : List Val

def openFmt : Val := .bytes [111, 112, 101, 110, 32, 115, 105, 110, 107, 32, 37, 113, 58, 32, 37, 119]

/-- one path: the registry is asked (recorded); a sink that opened is remembered twice (to write to, to close); a failure
    is appended to the error and the loop goes on -/
def openStep (P : Par) (a : OA) (p : Val) : OA :=
  if (P.newSink p).2.isEmpty then
    ⟨a.w ++ [.list (P.newSink p).1], a.c ++ [.list (P.newSink p).1], a.e, a.ev ++ [.list [TransOpen.nm "sinkRegistry.newSink", p]]⟩
  else
    ⟨a.w, a.c, a.e ++ [.list [TransOpen.nm "fmt.Errorf", openFmt, p, .list (P.newSink p).2]],
      a.ev ++ [.list [TransOpen.nm "sinkRegistry.newSink", p]]⟩

def oaJunk : Option (Val × Val × Val) → Env
  | none => []
  | some (p, s, e) => [("l3", p), ("l4", s), ("l5", e)]

theorem open_loop_matches_source (P : Par) (p0 : Val) (rec : Stmt → State → GoMini.Out) (fl0 : Env) :
    ∀ (ps : List Val) (a : OA) (i : Nat) (t : Option (Val × Val × Val)),
    ∃ t', rangeRun (execS (X P) rec openAll_loop0.rbody) .blank (.loc "l3") ps i
        ⟨[("p0", p0), ("l0", .list a.w), ("l1", .list a.c), ("l2", .list a.e)] ++ oaJunk t, ("ev", .list a.ev) :: fl0⟩ =
      .normal ⟨[("p0", p0), ("l0", .list (ps.foldl (openStep P) a).w), ("l1", .list (ps.foldl (openStep P) a).c),
          ("l2", .list (ps.foldl (openStep P) a).e)] ++ oaJunk t', ("ev", .list (ps.foldl (openStep P) a).ev) :: fl0⟩
  | [], a, i, t => ⟨t, by simp [rangeRun]⟩
  | p :: r, a, i, t => by
    obtain ⟨t', hrest⟩ := open_loop_matches_source P p0 rec fl0 r (openStep P a p) (i + 1)
      (some (p, .list (P.newSink p).1, .list (P.newSink p).2))
    refine ⟨t', ?_⟩
    cases he : (P.newSink p).2 with
    | nil =>
      have hst : openStep P a p = ⟨a.w ++ [.list (P.newSink p).1], a.c ++ [.list (P.newSink p).1], a.e,
          a.ev ++ [.list [TransOpen.nm "sinkRegistry.newSink", p]]⟩ := by simp [openStep, he]
      rw [hst, he] at hrest
      cases t <;>
        simp [rangeRun, openAll_loop0, Stmt.rbody, oaJunk, he, nm_newSink, State.assign1, Env.set, hst] <;>
        simpa [oaJunk, openAll_loop0, Stmt.rbody, nm_newSink] using hrest
    | cons e es =>
      have hp : ¬ ((es.length : Int) + 1 = 0) := by omega
      have hst : openStep P a p = ⟨a.w, a.c, a.e ++ [.list [TransOpen.nm "fmt.Errorf", openFmt, p, .list (e :: es)]],
          a.ev ++ [.list [TransOpen.nm "sinkRegistry.newSink", p]]⟩ := by simp [openStep, he]
      rw [hst, he] at hrest
      cases t <;>
        simp [rangeRun, openAll_loop0, Stmt.rbody, oaJunk, he, hp, nm_newSink, State.assign1, Env.set, hst, errV, openFmt] <;>
        simpa [oaJunk, openAll_loop0, Stmt.rbody, nm_newSink, errV, openFmt] using hrest

/-- the cleanup loop: `Close` on every sink that was opened, in the order they were opened -/
theorem open_close_matches_source (P : Par) (rec : Stmt → State → GoMini.Out) (p0 w c e : Val) (t0 : Option (Val × Val × Val))
    (fl0 : Env) :
    ∀ (cs : List Val) (ev : List Val) (i : Nat) (t : Option Val),
    ∃ t', rangeRun (execS (X P) rec openAll_loop1.rbody) .blank (.loc "l6") cs i
        ⟨[("p0", p0), ("l0", w), ("l1", c), ("l2", e)] ++ oaJunk t0 ++ (match t with | some v => [("l6", v)] | none => []),
          ("ev", .list ev) :: fl0⟩ =
      .normal ⟨[("p0", p0), ("l0", w), ("l1", c), ("l2", e)] ++ oaJunk t0 ++ (match t' with | some v => [("l6", v)] | none => []),
        ("ev", .list (ev ++ cs.map fun c => .list [TransOpen.nm "Sink.Close", c])) :: fl0⟩ := by
  intro cs
  induction cs with
  | nil => intro ev i t; exact ⟨t, by cases t <;> simp [rangeRun]⟩
  | cons x r ih =>
    intro ev i t
    obtain ⟨t', h⟩ := ih (ev ++ [.list [TransOpen.nm "Sink.Close", x]]) (i + 1) (some x)
    refine ⟨t', ?_⟩
    cases t0 <;> cases t <;>
      simp [rangeRun, openAll_loop1, Stmt.rbody, oaJunk, nm_close, State.assign1, Env.set, List.append_assoc] <;>
      simpa [oaJunk, openAll_loop1, Stmt.rbody, nm_close, List.append_assoc] using h

/-- the source text of the `closeAll` literal, as the translation of `open` carries it into the returned closure value -/
def closeText : Val :=
  match openAll_body.tl.tl.tl.tl.tl.tl with
  | .ret [_, .call _ (.lit t :: _), _] => t
  | _ => .list []

def closeEv (cs : List Val) : List Val := cs.map fun c => .list [TransOpen.nm "Sink.Close", c]

/-- the loop of `open` over all paths -/
def openR (P : Par) (ps ev : List Val) : OA := ps.foldl (openStep P) ⟨[], [], [], ev⟩

/-- what `open` returns, and what has been recorded when it does: if every path opened, the sinks and a close function
    holding exactly them (nothing is closed); otherwise nil, nil and the combined error, after `Close` on every sink that
    did open, in order -/
def openOut (R : OA) : List Val × List Val :=
  if R.e.isEmpty then ([.list R.w, .list [closeText, .list R.c], .list []], R.ev)
  else ([.list [], .list [], .list R.e], R.ev ++ closeEv R.c)

def openSpec (P : Par) (ps ev : List Val) : List Val × List Val := openOut (openR P ps ev)

set_option maxRecDepth 8000 in
theorem open_exec_matches_source (P : Par) (ps ev : List Val) (fl0 : Env) (fuel : Nat) :
    (exec (X P) (fuel + 1) openAll_body ⟨[("p0", .list ps)], ("ev", .list ev) :: fl0⟩).fin =
      some ((openSpec P ps ev).1, ("ev", .list (openSpec P ps ev).2) :: fl0) := by
  obtain ⟨t1, hloop⟩ := open_loop_matches_source P (.list ps) (exec (X P) fuel) fl0 ps ⟨[], [], [], ev⟩ 0 none
  show _ = some ((openOut (ps.foldl (openStep P) ⟨[], [], [], ev⟩)).1, ("ev", .list (openOut (ps.foldl (openStep P) ⟨[], [], [], ev⟩)).2) :: fl0)
  generalize ps.foldl (openStep P) ⟨[], [], [], ev⟩ = R at hloop ⊢
  obtain ⟨w, c, e, ev1⟩ := R
  simp only [openOut]
  have hL0 : openAll_loop0 = .range .blank (.loc "l3") (.loc "p0") openAll_loop0.rbody := rfl
  have hb : openAll_body = .seq openAll_body.hd (.seq openAll_body.tl.hd (.seq openAll_body.tl.tl.hd
      (.seq openAll_body.tl.tl.tl.hd (.seq openAll_loop0 openAll_body.tl.tl.tl.tl.tl)))) := rfl
  have hpre : ∀ k : State → GoMini.Out,
      (execS (X P) (exec (X P) fuel) openAll_body ⟨[("p0", .list ps)], ("ev", .list ev) :: fl0⟩) =
      (rangeRun (execS (X P) (exec (X P) fuel) openAll_loop0.rbody) .blank (.loc "l3") ps 0
        ⟨[("p0", .list ps), ("l0", .list []), ("l1", .list []), ("l2", .list [])], ("ev", .list ev) :: fl0⟩).andThen
        (execS (X P) (exec (X P) fuel) openAll_body.tl.tl.tl.tl.tl) := by
    intro _
    rw [hb]
    simp only [execS_seq]
    simp [openAll_body, Stmt.hd, Stmt.tl]
    rw [hL0, execS_range]
    rfl
  simp only [oaJunk, List.append_nil] at hloop
  cases e with
  | nil =>
    rw [exec_succ, hpre (fun σ => .normal σ), hloop]
    cases t1 <;> simp [openAll_body, Stmt.tl, oaJunk, closeText]
  | cons e0 es =>
    have hp : ¬ ((es.length : Int) + 1 = 0) := by omega
    obtain ⟨t2, hclose⟩ := open_close_matches_source P (exec (X P) fuel) (.list ps) (.list w) (.list c) (.list (e0 :: es)) t1 fl0
      c ev1 0 none
    rw [exec_succ, hpre (fun σ => .normal σ), hloop]
    simp only [Out.andThen_normal]
    simp only [List.append_nil] at hclose
    have hx : ∀ σ, execS (X P) (exec (X P) fuel) openAll_loop1 σ =
        execS (X P) (exec (X P) fuel) (.range .blank (.loc "l6") (.loc "l1") openAll_loop1.rbody) σ := fun _ => rfl
    cases t1 <;>
      (simp [openAll_body, Stmt.tl, oaJunk, hp, hx, closeEv] at hclose ⊢
       rw [hclose]
       cases t2 <;> simp)

/-- **open_matches_source**: every path is handed to the registry, in order, whatever happened before; if all opened,
    the sinks and a close function holding exactly them are returned and nothing is closed; if any failed, every sink that
    did open is closed (in order) before the combined error is returned with nil writers and a nil close function -/
theorem open_matches_source (P : Par) (ps ev : List Val) (fl0 : Env) (fuel : Nat) :
    run (X P) (fuel + 1) "openAll" [.list ps] (("ev", .list ev) :: fl0) =
      .done (openSpec P ps ev).1 (("ev", .list (openSpec P ps ev).2) :: fl0) :=
  run_of_fin (X P) _ _ Gen.TransOpen.openAll _ _ _ _ rfl rfl (open_exec_matches_source P ps ev fl0 fuel)

/-- does the registry open this path? -/
def opens (P : Par) (p : Val) : Bool := (P.newSink p).2.isEmpty

theorem open_fold (P : Par) : ∀ (ps : List Val) (a : OA),
    (ps.foldl (openStep P) a).w = a.w ++ (ps.filter (opens P)).map (fun p => .list (P.newSink p).1) ∧
    (ps.foldl (openStep P) a).c = a.c ++ (ps.filter (opens P)).map (fun p => .list (P.newSink p).1) ∧
    (ps.foldl (openStep P) a).e = a.e ++ (ps.filter (fun p => !opens P p)).map
      (fun p => .list [TransOpen.nm "fmt.Errorf", openFmt, p, .list (P.newSink p).2]) ∧
    (ps.foldl (openStep P) a).ev = a.ev ++ ps.map (fun p => .list [TransOpen.nm "sinkRegistry.newSink", p])
  | [], a => by simp
  | p :: r, a => by
    obtain ⟨h1, h2, h3, h4⟩ := open_fold P r (openStep P a p)
    simp only [List.foldl_cons]
    rw [h1, h2, h3, h4]
    cases h : opens P p <;> simp [opens] at h <;> simp [openStep, opens, h]

theorem openedIdx_length : ∀ (outs : List Bool) (i : Nat), (OpenBuild.openedIdx i outs).length = (outs.filter id).length
  | [], _ => rfl
  | true :: r, i => by simp [OpenBuild.openedIdx, openedIdx_length r]
  | false :: r, i => by simp [OpenBuild.openedIdx, openedIdx_length r]

/-- **open_is_openAll**: the fold the source computes is the hand model `OpenBuild.openAll` on the outcomes
    `outs[i] = (path i opened)`: it fails exactly when the model fails, the sinks it holds are those of the paths that opened
    (in path order, as many as the model's `opened`), both returned lists are those sinks, every path reached the registry -/
theorem open_is_openAll (P : Par) (ps : List Val) (ev : List Val) :
    let R := openR P ps ev
    let M := OpenBuild.openAll (ps.map (opens P))
    R.e.isEmpty = !M.err ∧
    R.c = (ps.filter (opens P)).map (fun p => .list (P.newSink p).1) ∧ R.w = R.c ∧
    M.opened.length = R.c.length ∧
    (M.err = true → M.closed = M.opened ∧ M.returned = []) ∧ (M.err = false → M.closed = [] ∧ M.returned = M.opened) ∧
    R.ev = ev ++ ps.map (fun p => .list [TransOpen.nm "sinkRegistry.newSink", p]) := by
  obtain ⟨hw, hc, he, hev⟩ := open_fold P ps ⟨[], [], [], ev⟩
  simp only [List.nil_append] at hw hc he
  show (openR P ps ev).e.isEmpty = _ ∧ _
  simp only [openR]
  refine ⟨?_, hc, by rw [hw, hc], ?_, ?_, ?_, hev⟩
  · rw [he]
    simp only [OpenBuild.openAll]
    cases hall : (ps.map (opens P)).all id
    · simp only [Bool.false_eq_true, if_false, Bool.not_true]
      simp only [List.all_map, List.all_eq_false] at hall
      obtain ⟨x, hx, hxo⟩ := hall
      cases hf : List.filter (fun p => !opens P p) ps with
      | nil =>
        have := List.filter_eq_nil_iff.mp hf x hx
        simp at hxo this; simp [this] at hxo
      | cons _ _ => simp
    · simp only [if_true, Bool.not_false]
      simp only [List.all_map, List.all_eq_true] at hall
      have : List.filter (fun p => !opens P p) ps = [] := by
        apply List.filter_eq_nil_iff.mpr
        intro a ha; have := hall a ha; simp at this; simp [this]
      simp [this]
  · rw [hc]
    simp only [OpenBuild.openAll]
    split <;> simp [openedIdx_length, List.filter_map, Function.comp_def]
  · simp only [OpenBuild.openAll]; split <;> simp
  · simp only [OpenBuild.openAll]; split <;> simp

/-! ### `CombineWriteSyncers`, `Open`, `Config.openSinks` -/

/-- no writers: a no-op syncer over io.Discard; otherwise the locked multi-writer over exactly the writers given -/
def combineSpec (ws : List Val) : Val :=
  if ws.isEmpty then .list [conV "zapcore.AddSync" [.list [.int 0]]]
  else .list [conV "zapcore.Lock" [.list [conV "zapcore.NewMultiWriteSyncer" [.list ws]]]]

theorem CombineWriteSyncers_exec_matches_source (P : Par) (ws : List Val) (fl : Env) (fuel : Nat) :
    (exec (X P) (fuel + 1) CombineWriteSyncers_body ⟨[("p0", .list ws)], fl⟩).fin = some ([combineSpec ws], fl) := by
  rw [exec_succ]
  cases ws with
  | nil => simp [CombineWriteSyncers_body, combineSpec]
  | cons w r =>
    have hp : ¬ ((r.length : Int) + 1 = 0) := by omega
    simp [CombineWriteSyncers_body, combineSpec, hp]

theorem CombineWriteSyncers_matches_source (P : Par) (ws : List Val) (fl : Env) (fuel : Nat) :
    run (X P) (fuel + 1) "CombineWriteSyncers" [.list ws] fl = .done [combineSpec ws] fl :=
  run_of_fin (X P) _ _ Gen.TransOpen.CombineWriteSyncers _ _ _ _ rfl rfl (CombineWriteSyncers_exec_matches_source P ws fl fuel)

/-- `Open`: `open`, and on success the combined writer over exactly the sinks that were opened, with `open`'s close function -/
def OpenOut (R : OA) : List Val × List Val :=
  if R.e.isEmpty then ([combineSpec R.w, .list [closeText, .list R.c], .list []], R.ev) else openOut R

def OpenSpec (P : Par) (ps ev : List Val) : List Val × List Val := OpenOut (openR P ps ev)

theorem Open_exec_matches_source (P : Par) (ps ev : List Val) (fl0 : Env) (fuel : Nat) :
    (exec (X P) (fuel + 2) Open_body ⟨[("p0", .list ps)], ("ev", .list ev) :: fl0⟩).fin =
      some ((OpenSpec P ps ev).1, ("ev", .list (OpenSpec P ps ev).2) :: fl0) := by
  have h1 := open_exec_matches_source P ps ev fl0 fuel
  simp only [OpenSpec, openSpec] at h1 ⊢
  generalize openR P ps ev = R at h1 ⊢
  obtain ⟨w, c, e, ev1⟩ := R
  rw [exec_succ]
  cases e with
  | nil =>
    have h2 := CombineWriteSyncers_exec_matches_source P w (("ev", .list ev1) :: fl0) fuel
    simp only [openOut, List.isEmpty_nil, if_true] at h1
    simp [Open_body, OpenOut, retK_of_fin _ _ _ _ _ _ _ h1, retK_of_fin1 _ _ _ _ _ _ h2]
  | cons e0 es =>
    have hp : ¬ ((es.length : Int) + 1 = 0) := by omega
    simp only [openOut, List.isEmpty_cons, Bool.false_eq_true, if_false] at h1
    simp [Open_body, OpenOut, openOut, retK_of_fin _ _ _ _ _ _ _ h1, hp]

/-- `Config.openSinks`: the outputs are opened first; if that fails NOTHING else happens (`open` has closed what it had
    opened); otherwise the error outputs are opened, and if THAT fails (`open` has closed what it had opened of them) the
    outputs' close function — holding exactly the output sinks — is called, once, before the error is returned; on
    success neither close function is called -/
def openSinksSpec (P : Par) (outs errs ev : List Val) : List Val × List Val :=
  if (openR P outs ev).e.isEmpty then
    if (openR P errs (openR P outs ev).ev).e.isEmpty then
      ([combineSpec (openR P outs ev).w, combineSpec (openR P errs (openR P outs ev).ev).w, .list []],
        (openR P errs (openR P outs ev).ev).ev)
    else
      ([.list [], .list [], .list (openR P errs (openR P outs ev).ev).e],
        (openR P errs (openR P outs ev).ev).ev ++ closeEv (openR P errs (openR P outs ev).ev).c ++
          [.list [TransOpen.nm "Closure.call", .list [closeText, .list (openR P outs ev).c]]])
  else ([.list [], .list [], .list (openR P outs ev).e], (openR P outs ev).ev ++ closeEv (openR P outs ev).c)

theorem openSinks_exec_matches_source (P : Par) (outs errs ev : List Val) (fl0 : Env)
    (hO : Env.get "outputPaths" fl0 = some (.list outs)) (hE : Env.get "errorOutputPaths" fl0 = some (.list errs)) (fuel : Nat) :
    (exec (X P) (fuel + 3) openSinks_body ⟨[], ("ev", .list ev) :: fl0⟩).fin =
      some ((openSinksSpec P outs errs ev).1, ("ev", .list (openSinksSpec P outs errs ev).2) :: fl0) := by
  have h1 := Open_exec_matches_source P outs ev fl0 fuel
  have h2 := fun ev1 => Open_exec_matches_source P errs ev1 fl0 fuel
  simp only [OpenSpec, openSinksSpec] at h1 h2 ⊢
  generalize openR P outs ev = O at h1 ⊢
  obtain ⟨w, c, e, ev1⟩ := O
  rw [exec_succ]
  cases e with
  | cons e0 es =>
    have hp : ¬ ((es.length : Int) + 1 = 0) := by omega
    simp only [OpenOut, openOut, List.isEmpty_cons, Bool.false_eq_true, if_false] at h1
    simp [openSinks_body, Env.get, hO, retK_of_fin _ _ _ _ _ _ _ h1, hp]
  | nil =>
    simp only [OpenOut, List.isEmpty_nil, if_true] at h1
    have h2' := h2 ev1
    generalize openR P errs ev1 = E at h2' ⊢
    obtain ⟨w', c', e', ev2⟩ := E
    cases e' with
    | cons e0 es =>
      have hp : ¬ ((es.length : Int) + 1 = 0) := by omega
      simp only [OpenOut, openOut, List.isEmpty_cons, Bool.false_eq_true, if_false] at h2'
      simp [openSinks_body, Env.get, Env.set, hO, hE, retK_of_fin _ _ _ _ _ _ _ h1, retK_of_fin _ _ _ _ _ _ _ h2', hp, nm_closure]
    | nil =>
      simp only [OpenOut, List.isEmpty_nil, if_true] at h2'
      simp [openSinks_body, Env.get, hO, hE, retK_of_fin _ _ _ _ _ _ _ h1, retK_of_fin _ _ _ _ _ _ _ h2']

theorem openSinks_matches_source (P : Par) (outs errs ev : List Val) (fl0 : Env)
    (hO : Env.get "outputPaths" fl0 = some (.list outs)) (hE : Env.get "errorOutputPaths" fl0 = some (.list errs)) (fuel : Nat) :
    run (X P) (fuel + 3) "openSinks" [] (("ev", .list ev) :: fl0) =
      .done (openSinksSpec P outs errs ev).1 (("ev", .list (openSinksSpec P outs errs ev).2) :: fl0) :=
  run_of_fin (X P) _ _ Gen.TransOpen.openSinks _ _ _ _ rfl rfl (openSinks_exec_matches_source P outs errs ev fl0 hO hE fuel)

/-! ### `Config.buildEncoder`, `Config.buildOptions`, `Config.Build` -/

theorem buildEncoder_exec_matches_source (P : Par) (enc cfg : Val) (ev : List Val) (fl0 : Env)
    (hN : Env.get "encoding" fl0 = some enc) (hC : Env.get "encoderConfig" fl0 = some cfg) (fuel : Nat) :
    (exec (X P) (fuel + 1) buildEncoder_body ⟨[], ("ev", .list ev) :: fl0⟩).fin =
      some ([.list (P.newEncoder enc cfg).1, .list (P.newEncoder enc cfg).2],
        ("ev", .list (ev ++ [.list [TransOpen.nm "newEncoder", enc, cfg]])) :: fl0) := by
  rw [exec_succ]
  simp [buildEncoder_body, Env.get, Env.set, hN, hC, nm_newEncoder]

/-- `buildEncoder` hands the configured name and encoder configuration, as they are, to the registry — once -/
theorem buildEncoder_matches_source (P : Par) (enc cfg : Val) (ev : List Val) (fl0 : Env)
    (hN : Env.get "encoding" fl0 = some enc) (hC : Env.get "encoderConfig" fl0 = some cfg) (fuel : Nat) :
    run (X P) (fuel + 1) "buildEncoder" [] (("ev", .list ev) :: fl0) =
      .done [.list (P.newEncoder enc cfg).1, .list (P.newEncoder enc cfg).2]
        (("ev", .list (ev ++ [.list [TransOpen.nm "newEncoder", enc, cfg]])) :: fl0) :=
  run_of_fin (X P) _ _ Gen.TransOpen.buildEncoder _ _ _ _ rfl rfl (buildEncoder_exec_matches_source P enc cfg ev fl0 hN hC fuel)

/-- the source text of the sampler-wrapping literal, as the translation of `buildOptions` carries it -/
def samplerText : Val :=
  match buildOptions_body.tl.tl.tl.tl.tl.tl.hd with
  | .seq _ (.ite _ (.assign _ [.call _ [_, .call _ [.call _ (.lit t :: _)]]]) _) => t
  | _ => .list []

/-- the options `Build` passes to `New`, in order: the error output; Development; AddCaller unless disabled;
    AddStacktrace (at Warn in development, else Error) unless disabled; the sampler wrapper iff Sampling is set (the closure
    holds the sampling configuration); the initial fields iff there are any — one `Any` per key, in SORTED key order -/
def optsSpec (P : Par) (errSink : Val) (dev dc ds : Bool) (samp ifs : List Val) : List Val :=
  [conV "ErrorOutput" [errSink]]
  ++ (if dev then [conV "Development" []] else [])
  ++ (if dc then [] else [conV "AddCaller" []])
  ++ (if ds then [] else [conV "AddStacktrace" [.int (if dev then 1 else 2)]])
  ++ (if samp.isEmpty then [] else [conV "WrapCore" [.list [samplerText, .list samp, .list samp]]])
  ++ (if ifs.isEmpty then [] else
        [conV "Fields" [.list ((P.sort (P.keys (.list ifs))).map fun k => conV "Any" [k, P.mapGet (.list ifs) k])]])

def boJunk : Option Val → Env
  | none => []
  | some v => [("l5", v)]

theorem buildOptions_keys_loop (P : Par) (rec : Stmt → State → GoMini.Out) (p0 l0 l1 l2 l3 : Val) (fl : Env) :
    ∀ (ks acc : List Val) (i : Nat) (t : Option Val),
    ∃ t', rangeRun (execS (X P) rec buildOptions_loop0.rbody) .blank (.loc "l5") ks i
        ⟨[("p0", p0), ("l0", l0), ("l1", l1), ("l2", l2), ("l3", l3), ("l4", .list acc)] ++ boJunk t, fl⟩ =
      .normal ⟨[("p0", p0), ("l0", l0), ("l1", l1), ("l2", l2), ("l3", l3), ("l4", .list (acc ++ ks))] ++ boJunk t', fl⟩ := by
  intro ks
  induction ks with
  | nil => intro acc i t; exact ⟨t, by simp [rangeRun]⟩
  | cons k r ih =>
    intro acc i t
    obtain ⟨t', h⟩ := ih (acc ++ [k]) (i + 1) (some k)
    refine ⟨t', ?_⟩
    cases t <;>
      simp [rangeRun, buildOptions_loop0, Stmt.rbody, boJunk, State.assign1, Env.set] <;>
      simpa [boJunk, buildOptions_loop0, Stmt.rbody, List.append_assoc] using h

theorem buildOptions_fields_loop (P : Par) (rec : Stmt → State → GoMini.Out) (p0 l0 l1 l2 l4 m : Val) (fl : Env)
    (hm : Env.get "initialFields" fl = some m) (t5 : Option Val) :
    ∀ (ks acc : List Val) (i : Nat) (t : Option Val),
    ∃ t', rangeRun (execS (X P) rec buildOptions_loop1.rbody) .blank (.loc "l6") ks i
        ⟨[("p0", p0), ("l0", l0), ("l1", l1), ("l2", l2), ("l3", .list acc), ("l4", l4)] ++ boJunk t5 ++
          (match t with | some v => [("l6", v)] | none => []), fl⟩ =
      .normal ⟨[("p0", p0), ("l0", l0), ("l1", l1), ("l2", l2),
          ("l3", .list (acc ++ ks.map fun k => conV "Any" [k, P.mapGet m k])), ("l4", l4)] ++ boJunk t5 ++
          (match t' with | some v => [("l6", v)] | none => []), fl⟩ := by
  intro ks
  induction ks with
  | nil => intro acc i t; exact ⟨t, by cases t <;> simp [rangeRun]⟩
  | cons k r ih =>
    intro acc i t
    obtain ⟨t', h⟩ := ih (acc ++ [conV "Any" [k, P.mapGet m k]]) (i + 1) (some k)
    refine ⟨t', ?_⟩
    cases t5 <;> cases t <;>
      simp [rangeRun, buildOptions_loop1, Stmt.rbody, boJunk, State.assign1, Env.set, hm] <;>
      simpa [boJunk, buildOptions_loop1, Stmt.rbody, List.append_assoc] using h

/-- the options before the initial fields -/
def opts7 (errSink : Val) (dev dc ds : Bool) (samp : List Val) : List Val :=
  [conV "ErrorOutput" [errSink]]
  ++ (if dev then [conV "Development" []] else [])
  ++ (if dc then [] else [conV "AddCaller" []])
  ++ (if ds then [] else [conV "AddStacktrace" [.int (if dev then 1 else 2)]])
  ++ (if samp.isEmpty then [] else [conV "WrapCore" [.list [samplerText, .list samp, .list samp]]])

set_option maxRecDepth 8000 in
theorem buildOptions_prefix (P : Par) (rec : Stmt → State → GoMini.Out) (errSink : Val) (dev dc ds : Bool) (samp : List Val) (fl : Env)
    (h1 : Env.get "development" fl = some (.bool dev)) (h2 : Env.get "disableCaller" fl = some (.bool dc))
    (h3 : Env.get "disableStacktrace" fl = some (.bool ds)) (h4 : Env.get "sampling" fl = some (.list samp)) :
    execS (X P) rec buildOptions_body ⟨[("p0", errSink)], fl⟩ =
      execS (X P) rec buildOptions_body.tl.tl.tl.tl.tl.tl.tl
        ⟨[("p0", errSink), ("l0", .list (opts7 errSink dev dc ds samp)), ("l1", .int (if dev then 1 else 2)), ("l2", .list samp)], fl⟩ := by
  have hb : buildOptions_body = .seq buildOptions_body.hd (.seq buildOptions_body.tl.hd (.seq buildOptions_body.tl.tl.hd
      (.seq buildOptions_body.tl.tl.tl.hd (.seq buildOptions_body.tl.tl.tl.tl.hd (.seq buildOptions_body.tl.tl.tl.tl.tl.hd
      (.seq buildOptions_body.tl.tl.tl.tl.tl.tl.hd buildOptions_body.tl.tl.tl.tl.tl.tl.tl)))))) := rfl
  rw [hb]
  generalize buildOptions_body.tl.tl.tl.tl.tl.tl.tl = rest
  simp only [execS_seq]
  cases samp with
  | nil =>
    cases dev <;> cases dc <;> cases ds <;>
      simp [buildOptions_body, Stmt.hd, Stmt.tl, h1, h2, h3, h4, opts7, State.assign1, Env.set]
  | cons x r =>
    have hp : ¬ ((r.length : Int) + 1 = 0) := by omega
    cases dev <;> cases dc <;> cases ds <;>
      simp [buildOptions_body, Stmt.hd, Stmt.tl, h1, h2, h3, h4, hp, opts7, samplerText, State.assign1, Env.set]

set_option maxRecDepth 8000 in
theorem buildOptions_exec_matches_source (P : Par) (errSink : Val) (dev dc ds : Bool) (samp ifs : List Val) (fl : Env)
    (h1 : Env.get "development" fl = some (.bool dev)) (h2 : Env.get "disableCaller" fl = some (.bool dc))
    (h3 : Env.get "disableStacktrace" fl = some (.bool ds)) (h4 : Env.get "sampling" fl = some (.list samp))
    (h5 : Env.get "initialFields" fl = some (.list ifs)) (fuel : Nat) :
    (exec (X P) (fuel + 1) buildOptions_body ⟨[("p0", errSink)], fl⟩).fin =
      some ([.list (optsSpec P errSink dev dc ds samp ifs)], fl) := by
  rw [exec_succ, buildOptions_prefix P _ errSink dev dc ds samp fl h1 h2 h3 h4]
  have hspec : optsSpec P errSink dev dc ds samp ifs = opts7 errSink dev dc ds samp ++
      (if ifs.isEmpty then [] else
        [conV "Fields" [.list ((P.sort (P.keys (.list ifs))).map fun k => conV "Any" [k, P.mapGet (.list ifs) k])]]) := by
    simp [optsSpec, opts7, List.append_assoc]
  rw [hspec]
  generalize opts7 errSink dev dc ds samp = o
  generalize (Val.int (if dev then 1 else 2)) = l1
  cases ifs with
  | nil => simp [buildOptions_body, Stmt.tl, h5]
  | cons x r =>
    have hp : ((r.length : Int) + 1 > 0) := by omega
    have hp' : ¬ ((r.length : Int) + 1 = 0) := by omega
    obtain ⟨t5, hk⟩ := buildOptions_keys_loop P (exec (X P) fuel) errSink (.list o) l1 (.list samp) (.list []) fl
      (P.keys (.list (x :: r))) [] 0 none
    obtain ⟨t6, hf⟩ := buildOptions_fields_loop P (exec (X P) fuel) errSink (.list o) l1 (.list samp)
      (.list (P.sort (P.keys (.list (x :: r))))) (.list (x :: r)) fl h5 t5 (P.sort (P.keys (.list (x :: r)))) [] 0 none
    have hx0 : ∀ σ, execS (X P) (exec (X P) fuel) buildOptions_loop0 σ = execS (X P) (exec (X P) fuel)
        (.range .blank (.loc "l5") (.call "InitialFields.keys" [.fld "initialFields"]) buildOptions_loop0.rbody) σ := fun _ => rfl
    have hx1 : ∀ σ, execS (X P) (exec (X P) fuel) buildOptions_loop1 σ = execS (X P) (exec (X P) fuel)
        (.range .blank (.loc "l6") (.loc "l4") buildOptions_loop1.rbody) σ := fun _ => rfl
    simp only [boJunk, List.append_nil, List.nil_append] at hk hf
    simp [buildOptions_body, Stmt.tl, h5, hp, hp', hx0, hx1, State.assign1, Env.set]
    rw [hk]
    cases t5 <;>
      (simp [boJunk, Env.get, Env.set, hx1] at hf ⊢
       rw [hf]
       cases t6 <;> simp [Env.get])

/-- **buildOptions_matches_source** -/
theorem buildOptions_matches_source (P : Par) (errSink : Val) (dev dc ds : Bool) (samp ifs : List Val) (fl : Env)
    (h1 : Env.get "development" fl = some (.bool dev)) (h2 : Env.get "disableCaller" fl = some (.bool dc))
    (h3 : Env.get "disableStacktrace" fl = some (.bool ds)) (h4 : Env.get "sampling" fl = some (.list samp))
    (h5 : Env.get "initialFields" fl = some (.list ifs)) (fuel : Nat) :
    run (X P) (fuel + 1) "buildOptions" [errSink] fl = .done [.list (optsSpec P errSink dev dc ds samp ifs)] fl :=
  run_of_fin (X P) _ _ Gen.TransOpen.buildOptions _ _ _ _ rfl rfl
    (buildOptions_exec_matches_source P errSink dev dc ds samp ifs fl h1 h2 h3 h4 h5 fuel)

/-- the logger `Build` returns: `New` over the core (encoder, the combined OUTPUT sinks, the level) with `buildOptions`
    over the combined ERROR sinks, then the caller's options if any -/
def buildLogger (P : Par) (encoder : List Val) (level : Val) (O E : OA) (dev dc ds : Bool) (samp ifs opts : List Val) : Val :=
  if opts.isEmpty then
    .list [conV "zap.New" [conV "zapcore.NewCore" [.list encoder, combineSpec O.w, level],
      .list (optsSpec P (combineSpec E.w) dev dc ds samp ifs)]]
  else
    .list [TransOpen.nm "Logger.WithOptions",
      .list [conV "zap.New" [conV "zapcore.NewCore" [.list encoder, combineSpec O.w, level],
        .list (optsSpec P (combineSpec E.w) dev dc ds samp ifs)]], .list opts]

def missingLevel : Bytes := [109, 105, 115, 115, 105, 110, 103, 32, 76, 101, 118, 101, 108]

/-- `Config.Build`: the encoder is built first and its error returned before anything else happens; then the level is
    checked — BEFORE any sink is opened; then `openSinks`; only if everything succeeded is a logger made -/
def buildSpec (P : Par) (enc cfg : Val) (level outs errs : List Val) (dev dc ds : Bool) (samp ifs opts ev : List Val) :
    List Val × List Val :=
  if (P.newEncoder enc cfg).2.isEmpty then
    if level.isEmpty then
      ([.list [], errV "errors.New" [.bytes missingLevel]], ev ++ [.list [TransOpen.nm "newEncoder", enc, cfg]])
    else if (openR P outs (ev ++ [.list [TransOpen.nm "newEncoder", enc, cfg]])).e.isEmpty then
      if (openR P errs (openR P outs (ev ++ [.list [TransOpen.nm "newEncoder", enc, cfg]])).ev).e.isEmpty then
        ([buildLogger P (P.newEncoder enc cfg).1 (.list level) (openR P outs (ev ++ [.list [TransOpen.nm "newEncoder", enc, cfg]]))
            (openR P errs (openR P outs (ev ++ [.list [TransOpen.nm "newEncoder", enc, cfg]])).ev) dev dc ds samp ifs opts, .list []],
          (openSinksSpec P outs errs (ev ++ [.list [TransOpen.nm "newEncoder", enc, cfg]])).2)
      else
        ([.list [], .list (openR P errs (openR P outs (ev ++ [.list [TransOpen.nm "newEncoder", enc, cfg]])).ev).e],
          (openSinksSpec P outs errs (ev ++ [.list [TransOpen.nm "newEncoder", enc, cfg]])).2)
    else
      ([.list [], .list (openR P outs (ev ++ [.list [TransOpen.nm "newEncoder", enc, cfg]])).e],
        (openSinksSpec P outs errs (ev ++ [.list [TransOpen.nm "newEncoder", enc, cfg]])).2)
  else ([.list [], .list (P.newEncoder enc cfg).2], ev ++ [.list [TransOpen.nm "newEncoder", enc, cfg]])

theorem Build_exec_matches_source (P : Par) (enc cfg : Val) (level outs errs : List Val) (dev dc ds : Bool)
    (samp ifs opts ev : List Val) (fl0 : Env)
    (hN : Env.get "encoding" fl0 = some enc) (hC : Env.get "encoderConfig" fl0 = some cfg)
    (hL : Env.get "level" fl0 = some (.list level))
    (hO : Env.get "outputPaths" fl0 = some (.list outs)) (hE : Env.get "errorOutputPaths" fl0 = some (.list errs))
    (h1 : Env.get "development" fl0 = some (.bool dev)) (h2 : Env.get "disableCaller" fl0 = some (.bool dc))
    (h3 : Env.get "disableStacktrace" fl0 = some (.bool ds)) (h4 : Env.get "sampling" fl0 = some (.list samp))
    (h5 : Env.get "initialFields" fl0 = some (.list ifs)) (fuel : Nat) :
    (exec (X P) (fuel + 4) Build_body ⟨[("p0", .list opts)], ("ev", .list ev) :: fl0⟩).fin =
      some ((buildSpec P enc cfg level outs errs dev dc ds samp ifs opts ev).1,
        ("ev", .list (buildSpec P enc cfg level outs errs dev dc ds samp ifs opts ev).2) :: fl0) := by
  have he := buildEncoder_exec_matches_source P enc cfg ev fl0 hN hC (fuel + 2)
  have hs := openSinks_exec_matches_source P outs errs (ev ++ [.list [TransOpen.nm "newEncoder", enc, cfg]]) fl0 hO hE fuel
  have hopt : ∀ (errSink : Val) (ev' : List Val),
      (exec (X P) (fuel + 3) buildOptions_body ⟨[("p0", errSink)], ("ev", .list ev') :: fl0⟩).fin =
        some ([.list (optsSpec P errSink dev dc ds samp ifs)], ("ev", .list ev') :: fl0) := fun errSink ev' =>
    buildOptions_exec_matches_source P errSink dev dc ds samp ifs _ (by simpa [Env.get] using h1) (by simpa [Env.get] using h2)
      (by simpa [Env.get] using h3) (by simpa [Env.get] using h4) (by simpa [Env.get] using h5) (fuel + 2)
  rw [exec_succ]
  simp only [buildSpec]
  cases hne : (P.newEncoder enc cfg).2 with
  | cons e0 es =>
    have hp : ¬ ((es.length : Int) + 1 = 0) := by omega
    rw [hne] at he
    simp [Build_body, retK_of_fin _ _ _ _ _ _ _ he, hp]
  | nil =>
    rw [hne] at he
    cases level with
    | nil =>
      simp [Build_body, retK_of_fin _ _ _ _ _ _ _ he, Env.get, hL, Val.beqs, missingLevel, errV]
    | cons l0 ls =>
      simp only [openSinksSpec] at hs ⊢
      generalize openR P outs (ev ++ [.list [TransOpen.nm "newEncoder", enc, cfg]]) = O at hs ⊢
      obtain ⟨w, c, e, ev1⟩ := O
      cases e with
      | cons e0 es =>
        have hp : ¬ ((es.length : Int) + 1 = 0) := by omega
        simp only [List.isEmpty_cons, Bool.false_eq_true, if_false] at hs
        simp [Build_body, retK_of_fin _ _ _ _ _ _ _ he, retK_of_fin _ _ _ _ _ _ _ hs, Env.get, hL, Val.beqs, hp]
      | nil =>
        simp only [List.isEmpty_nil, if_true] at hs ⊢
        generalize openR P errs ev1 = E at hs ⊢
        obtain ⟨w', c', e', ev2⟩ := E
        cases e' with
        | cons e0 es =>
          have hp : ¬ ((es.length : Int) + 1 = 0) := by omega
          simp only [List.isEmpty_cons, Bool.false_eq_true, if_false] at hs
          simp [Build_body, retK_of_fin _ _ _ _ _ _ _ he, retK_of_fin _ _ _ _ _ _ _ hs, Env.get, hL, Val.beqs, hp]
        | nil =>
          simp only [List.isEmpty_nil, if_true] at hs
          have ho := hopt (combineSpec w') ev2
          cases opts with
          | nil =>
            simp [Build_body, retK_of_fin _ _ _ _ _ _ _ he, retK_of_fin _ _ _ _ _ _ _ hs, retK_of_fin1 _ _ _ _ _ _ ho,
              Env.get, hL, Val.beqs, buildLogger]
          | cons o0 os =>
            have hp : ((os.length : Int) + 1 > 0) := by omega
            have hp' : ¬ ((os.length : Int) + 1 = 0) := by omega
            simp [Build_body, retK_of_fin _ _ _ _ _ _ _ he, retK_of_fin _ _ _ _ _ _ _ hs, retK_of_fin1 _ _ _ _ _ _ ho,
              Env.get, hL, Val.beqs, buildLogger, hp, hp']

/-- **Build_matches_source** -/
theorem Build_matches_source (P : Par) (enc cfg : Val) (level outs errs : List Val) (dev dc ds : Bool)
    (samp ifs opts ev : List Val) (fl0 : Env)
    (hN : Env.get "encoding" fl0 = some enc) (hC : Env.get "encoderConfig" fl0 = some cfg)
    (hL : Env.get "level" fl0 = some (.list level))
    (hO : Env.get "outputPaths" fl0 = some (.list outs)) (hE : Env.get "errorOutputPaths" fl0 = some (.list errs))
    (h1 : Env.get "development" fl0 = some (.bool dev)) (h2 : Env.get "disableCaller" fl0 = some (.bool dc))
    (h3 : Env.get "disableStacktrace" fl0 = some (.bool ds)) (h4 : Env.get "sampling" fl0 = some (.list samp))
    (h5 : Env.get "initialFields" fl0 = some (.list ifs)) (fuel : Nat) :
    run (X P) (fuel + 4) "Build" [.list opts] (("ev", .list ev) :: fl0) =
      .done (buildSpec P enc cfg level outs errs dev dc ds samp ifs opts ev).1
        (("ev", .list (buildSpec P enc cfg level outs errs dev dc ds samp ifs opts ev).2) :: fl0) :=
  run_of_fin (X P) _ _ Gen.TransOpen.Build _ _ _ _ rfl rfl
    (Build_exec_matches_source P enc cfg level outs errs dev dc ds samp ifs opts ev fl0 hN hC hL hO hE h1 h2 h3 h4 h5 fuel)

/-! ### the composed source IS the hand model `OpenBuild.build` -/

/-- the sinks of the paths that opened, in path order -/
def opened (P : Par) (ps : List Val) : List Val := (ps.filter (opens P)).map fun p => .list (P.newSink p).1
def sinkEv (ps : List Val) : List Val := ps.map fun p => .list [TransOpen.nm "sinkRegistry.newSink", p]

theorem openR_facts (P : Par) (ps ev : List Val) :
    (openR P ps ev).e.isEmpty = (ps.map (opens P)).all id ∧ (openR P ps ev).c = opened P ps ∧
    (openR P ps ev).w = opened P ps ∧ (openR P ps ev).ev = ev ++ sinkEv ps := by
  have h := open_is_openAll P ps ev
  simp only at h
  obtain ⟨h1, h2, h3, _, _, _, h7⟩ := h
  refine ⟨?_, h2, by rw [h3, h2]; rfl, h7⟩
  rw [h1]; simp only [OpenBuild.openAll]; split <;> simp_all

theorem openAll_facts (outs : List Bool) :
    (OpenBuild.openAll outs).err = !(outs.all id) ∧ (OpenBuild.openAll outs).opened.length = (outs.filter id).length ∧
    (OpenBuild.openAll outs).closed.length = (if outs.all id then 0 else (outs.filter id).length) ∧
    (OpenBuild.openAll outs).returned.length = (if outs.all id then (outs.filter id).length else 0) := by
  simp only [OpenBuild.openAll]
  split <;> simp_all [openedIdx_length]

theorem opened_length (P : Par) (ps : List Val) : (opened P ps).length = ((ps.map (opens P)).filter id).length := by
  simp [opened, List.filter_map, Function.comp_def]

/-- **Build_is_build**: with `outs[i]` / `errs[i]` = "path i opens", the level present iff the field is not the zero
    value, and the encoder stage failing iff `newEncoder` returns an error, the translated `Build` stops at the stage the
    hand model `OpenBuild.build` says, returns a logger exactly at `.done`, and its recorded calls are the model's
    opened / closed sets: nothing is opened before the encoder and the level are validated; a failing output list closes
    what it opened; a failing error-output list closes what it opened AND the returned close function of the outputs
    (holding all of them) is called -/
theorem Build_is_build (P : Par) (enc cfg : Val) (level outs errs : List Val) (dev dc ds : Bool) (samp ifs opts ev : List Val) :
    let B := OpenBuild.build ⟨if (P.newEncoder enc cfg).2.isEmpty then .ok else .ctorErr, !level.isEmpty,
      outs.map (opens P), errs.map (opens P)⟩
    let S := buildSpec P enc cfg level outs errs dev dc ds samp ifs opts ev
    (B.stage = .done ↔ S.1[1]? = some (.list [])) ∧
    S.2 = ev ++ [.list [TransOpen.nm "newEncoder", enc, cfg]] ++
      (match B.stage with
       | .encoder => []
       | .level => []
       | .out => sinkEv outs ++ closeEv (opened P outs)
       | .errout => sinkEv outs ++ sinkEv errs ++ closeEv (opened P errs) ++
           [.list [TransOpen.nm "Closure.call", .list [closeText, .list (opened P outs)]]]
       | .done => sinkEv outs ++ sinkEv errs) ∧
    B.openedOut.length = (match B.stage with | .encoder => 0 | .level => 0 | _ => (opened P outs).length) ∧
    B.closedOut.length = (match B.stage with | .out => (opened P outs).length | .errout => (opened P outs).length | _ => 0) ∧
    B.openedErr.length = (match B.stage with | .errout => (opened P errs).length | .done => (opened P errs).length | _ => 0) ∧
    B.closedErr.length = (match B.stage with | .errout => (opened P errs).length | _ => 0) := by
  intro B S
  have fo := fun ev => openR_facts P outs ev
  have fe := fun ev => openR_facts P errs ev
  have ao := openAll_facts (outs.map (opens P))
  have ae := openAll_facts (errs.map (opens P))
  have lo := opened_length P outs
  have le := opened_length P errs
  obtain ⟨ao1, ao2, ao3, ao4⟩ := ao
  obtain ⟨ae1, ae2, ae3, ae4⟩ := ae
  simp only [B, S, OpenBuild.build, buildSpec, openSinksSpec]
  cases hn : (P.newEncoder enc cfg).2.isEmpty
  · cases hx : (P.newEncoder enc cfg).2 with
    | nil => simp [hx] at hn
    | cons e0 es => simp
  · cases level with
    | nil => simp [errV]
    | cons l0 ls =>
      obtain ⟨fo1, fo2, fo3, fo4⟩ := fo (ev ++ [.list [TransOpen.nm "newEncoder", enc, cfg]])
      generalize openR P outs (ev ++ [.list [TransOpen.nm "newEncoder", enc, cfg]]) = O at fo1 fo2 fo3 fo4 ⊢
      obtain ⟨w, c, e, ev1⟩ := O
      simp only at fo1 fo2 fo3 fo4
      subst fo2 fo3 fo4
      obtain ⟨fe1, fe2, fe3, fe4⟩ := fe (ev ++ [.list [TransOpen.nm "newEncoder", enc, cfg]] ++ sinkEv outs)
      generalize openR P errs (ev ++ [.list [TransOpen.nm "newEncoder", enc, cfg]] ++ sinkEv outs) = E at fe1 fe2 fe3 fe4 ⊢
      obtain ⟨w', c', e', ev2⟩ := E
      simp only at fe1 fe2 fe3 fe4
      subst fe2 fe3 fe4
      cases e with
      | cons e0 es =>
        have ho : (outs.map (opens P)).all id = false := by rw [← fo1]; rfl
        simp [ho, ao1, ao2, ao3, lo, List.append_assoc]
      | nil =>
        have ho : (outs.map (opens P)).all id = true := by rw [← fo1]; rfl
        cases e' with
        | cons e0 es =>
          have he : (errs.map (opens P)).all id = false := by rw [← fe1]; rfl
          simp [ho, he, ao1, ae1, ao2, ae2, ao3, ae3, ao4, lo, le, List.append_assoc]
        | nil =>
          have he : (errs.map (opens P)).all id = true := by rw [← fe1]; rfl
          simp [ho, he, ao1, ae1, ao2, ae2, ao3, ae3, ao4, lo, le, List.append_assoc]

/-! ### `normalizeScheme` -/

def letterI (n : Int) : Bool := (decide (97 ≤ n) && decide (n ≤ 122)) || (decide (65 ≤ n) && decide (n ≤ 90))
def restI (n : Int) : Bool :=
  letterI n || (decide (48 ≤ n) && decide (n ≤ 57)) || ((decide (n = 46) || decide (n = 43)) || decide (n = 45))

theorem letterI_eq (b : UInt8) : letterI b.toNat = OpenBuild.isLetter b := by
  simp only [letterI, OpenBuild.isLetter, OpenBuild.isUpper, OpenBuild.isLower]
  have h1 : (decide ((97 : Int) ≤ b.toNat)) = decide ((97 : UInt8) ≤ b) :=
    decide_eq_decide.mpr (by rw [UInt8.le_iff_toNat_le]; simp; omega)
  have h2 : (decide ((b.toNat : Int) ≤ 122)) = decide (b ≤ (122 : UInt8)) :=
    decide_eq_decide.mpr (by rw [UInt8.le_iff_toNat_le]; simp; omega)
  have h3 : (decide ((65 : Int) ≤ b.toNat)) = decide ((65 : UInt8) ≤ b) :=
    decide_eq_decide.mpr (by rw [UInt8.le_iff_toNat_le]; simp; omega)
  have h4 : (decide ((b.toNat : Int) ≤ 90)) = decide (b ≤ (90 : UInt8)) :=
    decide_eq_decide.mpr (by rw [UInt8.le_iff_toNat_le]; simp; omega)
  rw [h1, h2, h3, h4, Bool.or_comm]

theorem restI_eq (b : UInt8) : restI b.toNat = OpenBuild.schemeRest b := by
  simp only [restI, OpenBuild.schemeRest, letterI_eq, OpenBuild.isDigit]
  have h1 : (decide ((48 : Int) ≤ b.toNat)) = decide ((48 : UInt8) ≤ b) :=
    decide_eq_decide.mpr (by rw [UInt8.le_iff_toNat_le]; simp; omega)
  have h2 : (decide ((b.toNat : Int) ≤ 57)) = decide (b ≤ (57 : UInt8)) :=
    decide_eq_decide.mpr (by rw [UInt8.le_iff_toNat_le]; simp; omega)
  have h3 : ∀ k : Nat, k < 256 → (decide ((b.toNat : Int) = (k : Int))) = (b == UInt8.ofNat k) := by
    intro k hk
    rw [Bool.eq_iff_iff]; simp only [decide_eq_true_eq, beq_iff_eq]
    exact byte_eq_lit b k hk
  have e46 := h3 46 (by omega); have e43 := h3 43 (by omega); have e45 := h3 45 (by omega)
  have e46' : decide ((b.toNat : Int) = 46) = (b == 46) := e46
  have e43' : decide ((b.toNat : Int) = 43) = (b == 43) := e43
  have e45' : decide ((b.toNat : Int) = 45) = (b == 45) := e45
  rw [h1, h2, e46', e43', e45']
  simp [Bool.or_assoc]

def nsJ : Option Val → Env
  | none => []
  | some v => [("l2", v)]

def nsFmt : Bytes := [109, 97, 121, 32, 110, 111, 116, 32, 99, 111, 110, 116, 97, 105, 110, 32, 37, 113]

/-- one iteration: the byte at the index is classified; a byte outside the RFC 3986 set returns the error naming it -/
theorem normalizeScheme_iter (P : Par) (rec : Stmt → State → GoMini.Out) (s : Bytes) (l0 : Val) (fl : Env) (i : Nat)
    (hi : i < s.length) (t : Option Val) :
    execS (X P) rec normalizeScheme_loop0.lbody ⟨[("p0", .bytes s), ("l0", l0), ("l1", .int i)] ++ nsJ t, fl⟩ =
      if restI s[i].toNat then .cont ⟨[("p0", .bytes s), ("l0", l0), ("l1", .int i)] ++ nsJ (some (.int s[i].toNat)), fl⟩
      else .ret [.bytes [], errV "fmt.Errorf" [.bytes nsFmt, .int s[i].toNat]]
        ⟨[("p0", .bytes s), ("l0", l0), ("l1", .int i)] ++ nsJ (some (.int s[i].toNat)), fl⟩ := by
  have hix := indexVal_bytes s i hi
  generalize (s[i].toNat : Int) = n at hix ⊢
  have m1 : ∀ σ' : State, Env.get "l2" σ'.loc = some (.int n) → matchCase (X P) σ' (.bool true)
      [((Expr.bin BinOp.le (Expr.lit (Val.int 97)) (Expr.loc "l2")).and
          (Expr.bin BinOp.le (Expr.loc "l2") (Expr.lit (Val.int 122)))).or
        ((Expr.bin BinOp.le (Expr.lit (Val.int 65)) (Expr.loc "l2")).and
          (Expr.bin BinOp.le (Expr.loc "l2") (Expr.lit (Val.int 90))))] = .ok (letterI n) := by
    intro σ' h; apply matchCase_true1
    simp [h, letterI, andK_ok_bool, orK_ok_bool, -andK_bool, -orK_bool]
  have m2 : ∀ σ' : State, Env.get "l2" σ'.loc = some (.int n) → matchCase (X P) σ' (.bool true)
      [(Expr.bin BinOp.le (Expr.lit (Val.int 48)) (Expr.loc "l2")).and
        (Expr.bin BinOp.le (Expr.loc "l2") (Expr.lit (Val.int 57)))] = .ok (decide (48 ≤ n) && decide (n ≤ 57)) := by
    intro σ' h; apply matchCase_true1
    simp [h, andK_ok_bool, orK_ok_bool, -andK_bool, -orK_bool]
  have m3 : ∀ σ' : State, Env.get "l2" σ'.loc = some (.int n) → matchCase (X P) σ' (.bool true)
      [((Expr.bin BinOp.eq (Expr.loc "l2") (Expr.lit (Val.int 46))).or
          (Expr.bin BinOp.eq (Expr.loc "l2") (Expr.lit (Val.int 43)))).or
        (Expr.bin BinOp.eq (Expr.loc "l2") (Expr.lit (Val.int 45)))] =
        .ok ((decide (n = 46) || decide (n = 43)) || decide (n = 45)) := by
    intro σ' h; apply matchCase_true1
    simp [h, andK_ok_bool, orK_ok_bool, -andK_bool, -orK_bool]
  cases t <;>
    (simp [normalizeScheme_loop0, Stmt.lbody, nsJ, hix, State.assign1, Env.set, andK_ok_bool, orK_ok_bool, -andK_bool, -orK_bool]
     rw [m1 _ (by simp [Env.get]), m2 _ (by simp [Env.get]), m3 _ (by simp [Env.get])]
     simp only [restI]
     rcases Bool.eq_false_or_eq_true (letterI n) with hA | hA <;>
     rcases Bool.eq_false_or_eq_true (decide (48 ≤ n) && decide (n ≤ 57)) with hB | hB <;>
     rcases Bool.eq_false_or_eq_true ((decide (n = 46) || decide (n = 43)) || decide (n = 45)) with hC | hC <;>
     simp only [hA, hB, hC] <;> simp [Env.get, nsFmt, errV])

/-- the first byte (after the first) outside the RFC 3986 set decides -/
def nsRes (P : Par) (s rest : Bytes) : List Val :=
  match rest.find? (fun b => !restI b.toNat) with
  | none => [.bytes (P.toLower s), .list []]
  | some b => [.bytes [], errV "fmt.Errorf" [.bytes nsFmt, .int b.toNat]]

theorem normalizeScheme_loop (P : Par) (s : Bytes) (l0 : Val) (fl : Env) (hs : (s.length : Int) < 9223372036854775808)
    (rec' : Stmt → State → GoMini.Out) :
    ∀ (rest pre : Bytes) (t : Option Val) (fuel : Nat), pre ++ rest = s →
      ((execS (X P) (exec (X P) (fuel + rest.length)) normalizeScheme_loop0
          ⟨[("p0", .bytes s), ("l0", l0), ("l1", .int pre.length)] ++ nsJ t, fl⟩).andThen
        (execS (X P) rec' normalizeScheme_body.tl.tl.tl)).fin = some (nsRes P s rest, fl) := by
  have hL : normalizeScheme_loop0 = .loop normalizeScheme_loop0.lcond normalizeScheme_loop0.lpost normalizeScheme_loop0.lbody := rfl
  intro rest
  induction rest with
  | nil =>
    intro pre t fuel hp
    simp only [List.append_nil] at hp
    subst hp
    rw [hL, execS_loop]
    cases t <;> simp [normalizeScheme_loop0, Stmt.lcond, nsJ, Env.get, nsRes, normalizeScheme_body, Stmt.tl]
  | cons b r ih =>
    intro pre t fuel hp
    have hi : pre.length < s.length := by rw [← hp]; simp
    have hb : s[pre.length] = b := by subst hp; simp
    have hcond : evalE (X P) ⟨[("p0", .bytes s), ("l0", l0), ("l1", .int pre.length)] ++ nsJ t, fl⟩
        normalizeScheme_loop0.lcond = .ok (.bool true) := by
      have : (pre.length : Int) < s.length := by omega
      cases t <;> simp [normalizeScheme_loop0, Stmt.lcond, nsJ, Env.get, this]
    rw [hL, execS_loop, hcond]
    simp only [Res.out_ok, condK_bool, if_true]
    rw [← hL, normalizeScheme_iter P _ s l0 fl pre.length hi t, hb]
    cases hr : restI b.toNat
    · simp [nsRes, List.find?, hr]
    · have hw : wrap .int ((pre.length : Int) + 1) = ((pre ++ [b]).length : Nat) := by
        rw [wrap_int_id] <;> (try simp) <;> omega
      have hrec : ∀ σ, exec (X P) (fuel + (r.length + 1)) normalizeScheme_loop0 σ =
          execS (X P) (exec (X P) (fuel + r.length)) normalizeScheme_loop0 σ := fun σ => by
        rw [show fuel + (r.length + 1) = (fuel + r.length) + 1 by omega, exec_succ]
      have := ih (pre ++ [b]) (some (.int b.toNat)) fuel (by simpa using hp)
      have hpost : normalizeScheme_loop0.lpost =
          .assign [.loc "l1"] [.bin (.add .int) (.loc "l1") (.lit (.int 1))] := rfl
      simp only [List.length_cons] at *
      simp [hpost, nsJ, Env.get, Env.set, State.assign1, hw, hrec] at this ⊢
      simpa [nsRes, List.find?, hr, nsJ] using this

def nsMustStart : Bytes := [109, 117, 115, 116, 32, 115, 116, 97, 114, 116, 32, 119, 105, 116, 104, 32, 97, 32, 108, 101, 116, 116, 101, 114]

/-- `normalizeScheme` on a non-empty string (the callers check `scheme == ""` first; on the empty string `s[0]` panics):
    the first byte must be an ASCII letter, every further byte a letter, digit, `.`, `+` or `-`; the bytes are validated
    BEFORE lower-casing, and only a valid scheme reaches `strings.ToLower` -/
def normalizeSpec (P : Par) (c : UInt8) (r : Bytes) : List Val :=
  if letterI c.toNat then nsRes P (c :: r) r else [.bytes [], errV "errors.New" [.bytes nsMustStart]]

theorem normalizeScheme_matches_source (P : Par) (c : UInt8) (r : Bytes) (fl : Env)
    (hs : ((c :: r).length : Int) < 9223372036854775808) (fuel : Nat) :
    run (X P) (fuel + r.length + 1) "normalizeScheme" [.bytes (c :: r)] fl = .done (normalizeSpec P c r) fl := by
  refine run_of_fin (X P) _ _ Gen.TransOpen.normalizeScheme _ _ _ _ rfl rfl ?_
  show (exec (X P) (fuel + r.length + 1) normalizeScheme_body ⟨[("p0", .bytes (c :: r))], fl⟩).fin = _
  have hb : normalizeScheme_body = .seq .skip (.seq normalizeScheme_body.tl.hd
      (.seq (.seq normalizeScheme_body.tl.tl.hd.hd normalizeScheme_loop0) normalizeScheme_body.tl.tl.tl)) := rfl
  have h2 : execS (X P) (exec (X P) (fuel + r.length)) normalizeScheme_body.tl.hd ⟨[("p0", .bytes (c :: r))], fl⟩ =
      if letterI c.toNat then .normal ⟨[("p0", .bytes (c :: r)), ("l0", .int c.toNat)], fl⟩
      else .ret [.bytes [], errV "errors.New" [.bytes nsMustStart]] ⟨[("p0", .bytes (c :: r)), ("l0", .int c.toNat)], fl⟩ := by
    have hix : indexVal (.bytes (c :: r)) (.int 0) = .ok (.int c.toNat) := by
      have := indexVal_bytes (c :: r) 0 (by simp); simpa using this
    simp [normalizeScheme_body, Stmt.tl, Stmt.hd, hix, State.assign1, Env.set, Env.get, andK_ok_bool, orK_ok_bool,
      -andK_bool, -orK_bool]
    rcases Bool.eq_false_or_eq_true (letterI c.toNat) with h | h <;>
      (simp only [h]; simp only [letterI] at h; simp [nsMustStart, errV]; simp at h; omega)
  have h3 : ∀ σ, execS (X P) (exec (X P) (fuel + r.length)) normalizeScheme_body.tl.tl.hd.hd σ =
      .normal (σ.assign1 (.loc "l1") (.int 1)) := by
    intro σ; simp [normalizeScheme_body, Stmt.tl, Stmt.hd]
  rw [exec_succ, hb]
  simp only [execS_seq, execS_skip, Out.andThen_normal]
  rw [h2]
  simp only [normalizeSpec]
  rcases Bool.eq_false_or_eq_true (letterI c.toNat) with h | h
  · simp only [h, if_true, Out.andThen_normal, execS_seq]
    rw [h3]
    simp only [Out.andThen_normal]
    have := normalizeScheme_loop P (c :: r) (.int c.toNat) fl hs (exec (X P) (fuel + r.length)) r [c] none fuel rfl
    simpa [nsJ, State.assign1, Env.set] using this
  · simp [h]

/-- **normalizeScheme_is_model**: if `strings.ToLower` is ASCII lower-casing on the (validated, hence ASCII) scheme, the
    source computes the hand model `OpenBuild.normalizeScheme` -/
theorem normalizeScheme_is_model (P : Par) (c : UInt8) (r : Bytes)
    (hlow : P.toLower (c :: r) = OpenBuild.lowerBytes (c :: r)) :
    match OpenBuild.normalizeScheme (c :: r) with
    | some n => normalizeSpec P c r = [.bytes n, .list []]
    | none => ∃ e, normalizeSpec P c r = [.bytes [], e] := by
  have hf : (fun b : UInt8 => !restI b.toNat) = (fun b => !OpenBuild.schemeRest b) := by
    funext b; rw [restI_eq]
  simp only [OpenBuild.normalizeScheme, normalizeSpec, nsRes, letterI_eq, hf]
  cases hl : OpenBuild.isLetter c
  · simp
  · cases hfd : r.find? (fun b => !OpenBuild.schemeRest b) with
    | none =>
      have : r.all OpenBuild.schemeRest = true := by
        rw [List.all_eq_true]; intro x hx
        have := List.find?_eq_none.mp hfd x hx
        simpa using this
      simp [this, hlow]
    | some b =>
      have hb := List.find?_some hfd
      have hm := List.mem_of_find?_eq_some hfd
      have : r.all OpenBuild.schemeRest = false := by
        rw [List.all_eq_false]; exact ⟨b, hm, by simpa using hb⟩
      simp [this]

end ZapVerif.C19
