import ZapVerif.Model.Level
import ZapVerif.Proofs.TransLevel
/-! # C20 — Level names and the level HTTP endpoint set exactly the requested level

Stated over the regenerated tables `Gen.levelText` (all 256 values, dumped from the running code) and
`Gen.levelNames` (the `unmarshalText` switch read from the source), so `lake build` re-proves them against
today's code. -/
set_option linter.unusedSimpArgs false
namespace ZapVerif.C20
open ZapVerif ZapVerif.Level

/-- obligation on the regenerated table: it covers every int8 value exactly once, in order -/
theorem table_complete : Gen.levelText.map (·.1) = (List.range 256).map (fun (n : Nat) => (n : Int) - 128) := by
  decide +kernel

/-- every valid level round-trips through its lower-case and capital names and MarshalText,
    whatever `lower` is (the second clause uses the real ASCII lowering of the capital names
    only through the hypothesis that `lower` sends each capital name to the lower-case one) -/
theorem text_roundtrip (lower : Bytes → Bytes) :
    ∀ l ∈ validLevels, parse lower (stringOf l) = some l ∧ marshalOf l = some (stringOf l) := by
  have h : ∀ l ∈ validLevels, unmarshal1 (stringOf l) = some l ∧ marshalOf l = some (stringOf l) := by
    decide +kernel
  intro l hm
  simp [parse, (h l hm).1, (h l hm).2]

theorem capital_roundtrip (lower : Bytes → Bytes)
    (hl : ∀ l ∈ validLevels, lower (capitalOf l) = stringOf l) :
    ∀ l ∈ validLevels, parse lower (capitalOf l) = some l := by
  intro l hm
  have h1 : unmarshal1 (capitalOf l) = none := by
    revert l; decide +kernel
  have h2 : unmarshal1 (stringOf l) = some l := by
    revert l; decide +kernel
  simp [parse, h1, hl l hm, h2]

/-- the capital names are not themselves in the switch, and no two valid levels share a name -/
theorem names_injective : ∀ a ∈ validLevels, ∀ b ∈ validLevels, stringOf a = stringOf b → a = b := by
  decide +kernel

/-- text is accepted iff it, or its lower-cased image, is one of the names — for every `lower` -/
theorem parse_iff (lower : Bytes → Bytes) (t : Bytes) (l : Lvl) :
    parse lower t = some l ↔
      unmarshal1 t = some l ∨ (unmarshal1 t = none ∧ unmarshal1 (lower t) = some l) := by
  unfold parse
  cases h : unmarshal1 t <;> simp

/-- every accepted text names a valid level -/
theorem parse_valid (lower : Bytes → Bytes) (t : Bytes) (l : Lvl) (h : parse lower t = some l) : l ∈ validLevels := by
  have key : ∀ u, unmarshal1 u = some l → l ∈ validLevels := by
    intro u hu
    have := List.lookup_eq_some_iff.mp hu
    obtain ⟨l1, l2, heq, _⟩ := this
    have hm : (u, l) ∈ Gen.levelNames := by rw [heq]; simp
    have : ∀ p ∈ Gen.levelNames, p.2 ∈ validLevels := by decide +kernel
    exact this _ hm
  rcases (parse_iff lower t l).mp h with h | ⟨_, h⟩ <;> exact key _ h

/-- the empty string reads as info -/
theorem empty_is_info (lower : Bytes → Bytes) : parse lower [] = some 0 := by
  have h : unmarshal1 [] = some 0 := by decide +kernel
  simp [parse, h]

/-- rejected text leaves the target unmodified -/
theorem reject_unchanged (lower : Bytes → Bytes) (cur : Lvl) (t : Bytes) (h : parse lower t = none) :
    unmarshalInto lower cur t = (false, cur) := by
  simp [unmarshalInto, h]

/-- the endpoint changes the level only on a PUT that names a level, and then to exactly that level -/
theorem http_changes_iff (cur : Lvl) (r : Req) (h : (serve cur r).2.1 ≠ cur) :
    r.method = "PUT" ∧ ∃ l, decodePut r.dec = some l ∧ (serve cur r).2.1 = l ∧ (serve cur r).1 = 200 := by
  unfold serve at h ⊢
  by_cases hg : r.method = "GET"
  · simp [hg] at h
  · by_cases hp : r.method = "PUT"
    · cases hd : decodePut r.dec with
      | none => simp [hp, hd] at h
      | some l => simp [hp, hd]
    · simp [hg, hp] at h

theorem jsonFold_valid (vals : List JVal) (st : Option Lvl) (hst : ∀ x, st = some x → x ∈ validLevels)
    (y : Lvl) (hy : (jsonFold st vals).join = some y) : y ∈ validLevels := by
  induction vals generalizing st with
  | nil => simp [jsonFold] at hy; exact hst y hy
  | cons v vs ih =>
    cases v with
    | null => simp only [jsonFold] at hy; exact ih none (by simp) hy
    | bad => simp [jsonFold] at hy
    | text t lo =>
      simp only [jsonFold] at hy
      cases hp : parse (fun _ => lo) t with
      | none => simp [hp] at hy
      | some l' =>
        simp only [hp] at hy
        exact ih (some l') (by intro x hx; cases hx; exact parse_valid _ t l' hp) hy

/-- a level set through the endpoint is always a valid level -/
theorem http_sets_valid (cur : Lvl) (r : Req) (h : (serve cur r).2.1 ≠ cur) : (serve cur r).2.1 ∈ validLevels := by
  obtain ⟨_, l, hd, hl, _⟩ := http_changes_iff cur r h
  rw [hl]
  cases hdec : r.dec with
  | malformed => simp [hdec, decodePut] at hd
  | form t lo =>
    simp only [hdec, decodePut] at hd
    split at hd
    · simp at hd
    · exact parse_valid _ t l hd
  | json vals =>
    simp only [hdec, decodePut] at hd
    exact jsonFold_valid vals none (by simp) l hd

/-- status codes: GET and successful PUT 200; PUT without a valid level 400; any other method 405 -/
theorem http_status (cur : Lvl) (r : Req) :
    (serve cur r).1 = (if r.method = "GET" then 200 else if r.method = "PUT" then
      (if (decodePut r.dec).isSome then 200 else 400) else 405) := by
  unfold serve
  by_cases hg : r.method = "GET"
  · simp [hg]
  · by_cases hp : r.method = "PUT"
    · cases hd : decodePut r.dec <;> simp [hp, hd]
    · simp [hg, hp]

/-- a 200 response reports the level in force after the request; other statuses leave the level unchanged -/
theorem http_reports_in_force (cur : Lvl) (r : Req) :
    ((serve cur r).1 = 200 → (serve cur r).2.2 = some (serve cur r).2.1) ∧
    ((serve cur r).1 ≠ 200 → (serve cur r).2.1 = cur) := by
  unfold serve
  by_cases hg : r.method = "GET"
  · simp [hg]
  · by_cases hp : r.method = "PUT"
    · cases hd : decodePut r.dec <;> simp [hp, hd]
    · simp [hg, hp]

/-- non-vacuity -/
example : serve 0 ⟨"PUT", .form [100, 101, 98, 117, 103] [100, 101, 98, 117, 103]⟩ = (200, -1, some (-1)) := by
  decide +kernel
example : serve 2 ⟨"PUT", .json [.text [68, 69, 66, 85, 71] [100, 101, 98, 117, 103], .null]⟩ = (400, 2, none) := by
  decide +kernel

end ZapVerif.C20

/-! # `zapcore/level.go` and `http_handler.go` ARE the source (translator round 4, table `Gen.TransLevel`)

`(*Level).unmarshalText`, `UnmarshalText`, `ParseLevel`, `Level.String`, `CapitalString` (`LevelOf`: Props/C05) and
`AtomicLevel.serveHTTP`, `decodePutRequest`, `decodePutURL`, `decodePutJSON`, translated mechanically, are interpreted
with `bytes.ToLower`, `fmt.Sprintf`, the `leveledEnabler` assertion, `Enabled`, `FormValue`, `Header.Get`, the JSON
decoder's outcome and `error.Error` as parameters, `WriteHeader` / `Encode` as recorded calls.  The model functions the
theorems above are stated over are what the translated terms compute: `namesSpec_is_unmarshal1` (the switch is
`Level.unmarshal1`), `UnmarshalText_matches_source` (= `Level.unmarshalInto`, the function of `reject_unchanged` /
`parse_iff`), `stringSpec_is_stringOf`, `serveHTTP_is_serve` (= `Level.serve`, the function of `http_status`,
`http_changes_iff`, `http_reports_in_force`). -/
namespace ZapVerif.C20
open ZapVerif ZapVerif.Level ZapVerif.GoMini ZapVerif.TransLevel ZapVerif.Gen.TransLevel

/-- the switch of `(*Level).unmarshalText`, written out: which texts are names, and of which level -/
def namesSpec (t : Bytes) : Option Int :=
  if t = [100, 101, 98, 117, 103] then some (-1)
  else if t = [105, 110, 102, 111] ∨ t = [] then some 0
  else if t = [119, 97, 114, 110] ∨ t = [119, 97, 114, 110, 105, 110, 103] then some 1
  else if t = [101, 114, 114, 111, 114] then some 2
  else if t = [100, 112, 97, 110, 105, 99] then some 3
  else if t = [112, 97, 110, 105, 99] then some 4
  else if t = [102, 97, 116, 97, 108] then some 5
  else none

theorem unmarshalText_exec_matches_source (P : Par) (t : Bytes) (cur : Int) (fl0 : Env) (fuel : Nat) :
    (exec (X P) (fuel + 1) unmarshalText_body ⟨[("p0", .bytes t)], ("lvl", .int cur) :: fl0⟩).fin =
      some ([.bool (namesSpec t).isSome], ("lvl", .int ((namesSpec t).getD cur)) :: fl0) := by
  rw [exec_succ]
  unfold namesSpec
  by_cases h1 : t = [100, 101, 98, 117, 103]
  · subst h1; simp [unmarshalText_body]
  by_cases h2 : t = [105, 110, 102, 111]
  · subst h2; simp [unmarshalText_body]
  by_cases h3 : t = []
  · subst h3; simp [unmarshalText_body]
  by_cases h4 : t = [119, 97, 114, 110]
  · subst h4; simp [unmarshalText_body]
  by_cases h5 : t = [119, 97, 114, 110, 105, 110, 103]
  · subst h5; simp [unmarshalText_body]
  by_cases h6 : t = [101, 114, 114, 111, 114]
  · subst h6; simp [unmarshalText_body]
  by_cases h7 : t = [100, 112, 97, 110, 105, 99]
  · subst h7; simp [unmarshalText_body]
  by_cases h8 : t = [112, 97, 110, 105, 99]
  · subst h8; simp [unmarshalText_body]
  by_cases h9 : t = [102, 97, 116, 97, 108]
  · subst h9; simp [unmarshalText_body]
  simp [unmarshalText_body, h1, h2, h3, h4, h5, h6, h7, h8, h9]

theorem unmarshalText_matches_source (P : Par) (t : Bytes) (cur : Int) (fl0 : Env) (fuel : Nat) :
    run (X P) (fuel + 1) "unmarshalText" [.bytes t] (("lvl", .int cur) :: fl0) =
      .done [.bool (namesSpec t).isSome] (("lvl", .int ((namesSpec t).getD cur)) :: fl0) :=
  run_of_fin (X P) _ _ Gen.TransLevel.unmarshalText [.bytes t] _ _ _ rfl rfl (unmarshalText_exec_matches_source P t cur fl0 fuel)

/-- the names the switch knows -/
def nameKeys : List Bytes := [[100, 101, 98, 117, 103], [105, 110, 102, 111], [], [119, 97, 114, 110], [119, 97, 114, 110, 105, 110, 103],
  [101, 114, 114, 111, 114], [100, 112, 97, 110, 105, 99], [112, 97, 110, 105, 99], [102, 97, 116, 97, 108]]

/-- the switch read by the translator is the table `Gen.levelNames` read by the fact extractor: the model function
    `Level.unmarshal1` the C20 theorems are stated over IS the translated `unmarshalText` -/
theorem namesSpec_is_unmarshal1 (t : Bytes) : namesSpec t = unmarshal1 t := by
  by_cases hk : t ∈ nameKeys
  · have h : ∀ k ∈ nameKeys, namesSpec k = unmarshal1 k := by decide +kernel
    exact h t hk
  · have hn : namesSpec t = none := by
      simp only [nameKeys, List.mem_cons, List.not_mem_nil, or_false, not_or] at hk
      simp [namesSpec, hk]
    have hkeys : ∀ p ∈ Gen.levelNames, p.1 ∈ nameKeys := by decide +kernel
    have hu : unmarshal1 t = none := by
      unfold unmarshal1
      rw [List.lookup_eq_none_iff]
      intro p hp
      have := hkeys p hp
      simp only [bne_iff_ne, ne_eq]
      intro heq
      exact hk (heq ▸ this)
    rw [hn, hu]

/-- `(*Level).UnmarshalText` on a non-nil receiver: the exact text first, then its `bytes.ToLower` image; the target is
    written only by a successful attempt; the error names the text -/
def unmarshalErrL (t : Bytes) : List Val :=
  [.list [nm "fmt.Errorf", .bytes [117, 110, 114, 101, 99, 111, 103, 110, 105, 122, 101, 100, 32, 108, 101, 118, 101, 108, 58, 32, 37, 113], .bytes t]]
def unmarshalErr (t : Bytes) : Val := .list (unmarshalErrL t)

theorem UnmarshalText_exec_matches_source (P : Par) (t : Bytes) (cur : Int) (fl0 : Env) (fuel : Nat) :
    (exec (X P) (fuel + 2) UnmarshalText_body ⟨[("p0", .bytes t)], ("lvl", .int cur) :: ("isnil", .bool false) :: fl0⟩).fin =
      some ([if (unmarshalInto P.lower cur t).1 then .list [] else unmarshalErr t],
        ("lvl", .int (unmarshalInto P.lower cur t).2) :: ("isnil", .bool false) :: fl0) := by
  have hcall : ∀ (σ : State) (l : LV) (u : Bytes) (c : Int), retK σ [l] "unmarshalText"
      (exec (X P) (fuel + 1) unmarshalText_body ⟨[("p0", .bytes u)], ("lvl", .int c) :: ("isnil", .bool false) :: fl0⟩) = _ :=
    fun σ l u c => retK_of_fin1 σ _ _ _ _ _ (unmarshalText_exec_matches_source P u c _ fuel)
  rw [exec_succ]
  simp only [unmarshalInto, parse, ← namesSpec_is_unmarshal1]
  cases h1 : namesSpec t with
  | some l => simp [UnmarshalText_body, hcall, h1]
  | none =>
    cases h2 : namesSpec (P.lower t) with
    | some l => simp [UnmarshalText_body, hcall, h1, h2]
    | none => simp [UnmarshalText_body, hcall, h1, h2, unmarshalErr, unmarshalErrL, errV]

theorem UnmarshalText_matches_source (P : Par) (t : Bytes) (cur : Int) (fl0 : Env) (fuel : Nat) :
    run (X P) (fuel + 2) "UnmarshalText" [.bytes t] (("lvl", .int cur) :: ("isnil", .bool false) :: fl0) =
      .done [if (unmarshalInto P.lower cur t).1 then .list [] else unmarshalErr t]
        (("lvl", .int (unmarshalInto P.lower cur t).2) :: ("isnil", .bool false) :: fl0) :=
  run_of_fin (X P) _ _ Gen.TransLevel.UnmarshalText [.bytes t] _ _ _ rfl rfl (UnmarshalText_exec_matches_source P t cur fl0 fuel)

/-- a nil receiver: the sentinel error, nothing touched -/
theorem UnmarshalText_nil_matches_source (P : Par) (t : Bytes) (cur : Val) (fl0 : Env) (fuel : Nat) :
    run (X P) (fuel + 1) "UnmarshalText" [.bytes t] (("lvl", cur) :: ("isnil", .bool true) :: fl0) =
      .done [.list [.int 0]] (("lvl", cur) :: ("isnil", .bool true) :: fl0) := by
  apply run_of_fin (X P) _ _ Gen.TransLevel.UnmarshalText [.bytes t] _ _ _ rfl rfl
  rw [exec_succ]
  simp [UnmarshalText_body]

/-- `ParseLevel`: a fresh zero Level, `UnmarshalText` into it; level and error returned (the level is 0 on rejection) -/
theorem ParseLevel_exec_matches_source (P : Par) (t : Bytes) (a b : Val) (fl0 : Env) (fuel : Nat) :
    (exec (X P) (fuel + 3) ParseLevel_body ⟨[("p0", .bytes t)], ("lvl", a) :: ("isnil", b) :: fl0⟩).fin =
      some ([.int (unmarshalInto P.lower 0 t).2, if (unmarshalInto P.lower 0 t).1 then .list [] else unmarshalErr t],
        ("lvl", .int (unmarshalInto P.lower 0 t).2) :: ("isnil", .bool false) :: fl0) := by
  have hcall : ∀ (σ : State) (l : LV), retK σ [l] "UnmarshalText"
      (exec (X P) (fuel + 2) UnmarshalText_body ⟨[("p0", .bytes t)], ("lvl", .int 0) :: ("isnil", .bool false) :: fl0⟩) = _ :=
    fun σ l => retK_of_fin1 σ _ _ _ _ _ (UnmarshalText_exec_matches_source P t 0 _ fuel)
  rw [exec_succ]
  simp [ParseLevel_body, hcall]

theorem ParseLevel_matches_source (P : Par) (t : Bytes) (a b : Val) (fl0 : Env) (fuel : Nat) :
    run (X P) (fuel + 3) "ParseLevel" [.bytes t] (("lvl", a) :: ("isnil", b) :: fl0) =
      .done [.int (unmarshalInto P.lower 0 t).2, if (unmarshalInto P.lower 0 t).1 then .list [] else unmarshalErr t]
        (("lvl", .int (unmarshalInto P.lower 0 t).2) :: ("isnil", .bool false) :: fl0) :=
  run_of_fin (X P) _ _ Gen.TransLevel.ParseLevel [.bytes t] _ _ _ rfl rfl (ParseLevel_exec_matches_source P t a b fl0 fuel)


/-- `Level.String` / `CapitalString`: the seven names, anything else through `fmt.Sprintf` -/
def stringSpec (P : Par) (l : Int) : Bytes :=
  if l = -1 then [100, 101, 98, 117, 103] else if l = 0 then [105, 110, 102, 111] else if l = 1 then [119, 97, 114, 110]
  else if l = 2 then [101, 114, 114, 111, 114] else if l = 3 then [100, 112, 97, 110, 105, 99]
  else if l = 4 then [112, 97, 110, 105, 99] else if l = 5 then [102, 97, 116, 97, 108]
  else P.sprintf [76, 101, 118, 101, 108, 40, 37, 100, 41] l

def capitalSpec (P : Par) (l : Int) : Bytes :=
  if l = -1 then [68, 69, 66, 85, 71] else if l = 0 then [73, 78, 70, 79] else if l = 1 then [87, 65, 82, 78]
  else if l = 2 then [69, 82, 82, 79, 82] else if l = 3 then [68, 80, 65, 78, 73, 67]
  else if l = 4 then [80, 65, 78, 73, 67] else if l = 5 then [70, 65, 84, 65, 76]
  else P.sprintf [76, 69, 86, 69, 76, 40, 37, 100, 41] l

theorem String_matches_source (P : Par) (l : Int) (fl0 : Env) (fuel : Nat) :
    run (X P) (fuel + 1) "LevelString" [] (("lvl", .int l) :: fl0) = .done [.bytes (stringSpec P l)] (("lvl", .int l) :: fl0) := by
  apply run_of_fin (X P) _ _ Gen.TransLevel.LevelString [] _ _ _ rfl rfl
  rw [exec_succ]
  unfold stringSpec
  by_cases h1 : l = -1
  · subst h1; simp [LevelString_body]
  by_cases h2 : l = 0
  · subst h2; simp [LevelString_body]
  by_cases h3 : l = 1
  · subst h3; simp [LevelString_body]
  by_cases h4 : l = 2
  · subst h4; simp [LevelString_body]
  by_cases h5 : l = 3
  · subst h5; simp [LevelString_body]
  by_cases h6 : l = 4
  · subst h6; simp [LevelString_body]
  by_cases h7 : l = 5
  · subst h7; simp [LevelString_body]
  simp [LevelString_body, h1, h2, h3, h4, h5, h6, h7]

theorem CapitalString_matches_source (P : Par) (l : Int) (fl0 : Env) (fuel : Nat) :
    run (X P) (fuel + 1) "LevelCapitalString" [] (("lvl", .int l) :: fl0) = .done [.bytes (capitalSpec P l)] (("lvl", .int l) :: fl0) := by
  apply run_of_fin (X P) _ _ Gen.TransLevel.LevelCapitalString [] _ _ _ rfl rfl
  rw [exec_succ]
  unfold capitalSpec
  by_cases h1 : l = -1
  · subst h1; simp [LevelCapitalString_body]
  by_cases h2 : l = 0
  · subst h2; simp [LevelCapitalString_body]
  by_cases h3 : l = 1
  · subst h3; simp [LevelCapitalString_body]
  by_cases h4 : l = 2
  · subst h4; simp [LevelCapitalString_body]
  by_cases h5 : l = 3
  · subst h5; simp [LevelCapitalString_body]
  by_cases h6 : l = 4
  · subst h6; simp [LevelCapitalString_body]
  by_cases h7 : l = 5
  · subst h7; simp [LevelCapitalString_body]
  simp [LevelCapitalString_body, h1, h2, h3, h4, h5, h6, h7]

/-- on the valid levels the translated switches ARE the rows of the dumped table `Gen.levelText` the round-trip
    theorems are stated over (whatever `fmt.Sprintf` is) -/
theorem stringSpec_is_stringOf (P : Par) : ∀ l ∈ validLevels, stringSpec P l = stringOf l ∧ capitalSpec P l = capitalOf l := by
  intro l hl
  simp only [validLevels, List.mem_cons, List.not_mem_nil, or_false] at hl
  rcases hl with h | h | h | h | h | h | h <;> subst h <;> constructor <;> simp [stringSpec, capitalSpec] <;> decide +kernel


/-! ### http_handler.go -/

def mustSpecify : List Val :=
  [.list [nm "errors.New", .bytes [109, 117, 115, 116, 32, 115, 112, 101, 99, 105, 102, 121, 32, 108, 111, 103, 103, 105, 110, 103, 32, 108, 101, 118, 101, 108]]]
def malformedErr (e : List Val) : List Val :=
  [.list [nm "fmt.Errorf", .bytes [109, 97, 108, 102, 111, 114, 109, 101, 100, 32, 114, 101, 113, 117, 101, 115, 116, 32, 98, 111, 100, 121, 58, 32, 37, 118], .list e]]
def levelKey : Bytes := [108, 101, 118, 101, 108]
def formCT : Bytes := [97, 112, 112, 108, 105, 99, 97, 116, 105, 111, 110, 47, 120, 45, 119, 119, 119, 45, 102, 111, 114, 109, 45, 117, 114, 108, 101, 110, 99, 111, 100, 101, 100]

/-- `decodePutURL`: the form value `level`; empty ⇒ "must specify"; else `UnmarshalText` into a zero Level -/
def putURLSpec (P : Par) (r : Val) : Int × List Val :=
  if P.formValue r levelKey = [] then (0, mustSpecify)
  else if (unmarshalInto P.lower 0 (P.formValue r levelKey)).1 then ((unmarshalInto P.lower 0 (P.formValue r levelKey)).2, [])
  else (0, unmarshalErrL (P.formValue r levelKey))

theorem decodePutURL_exec_matches_source (P : Par) (r a b : Val) (fl0 : Env) (fuel : Nat) :
    ∃ a' b', (exec (X P) (fuel + 3) decodePutURL_body ⟨[("p0", r)], ("lvl", a) :: ("isnil", b) :: fl0⟩).fin =
      some ([.int (putURLSpec P r).1, .list (putURLSpec P r).2], ("lvl", a') :: ("isnil", b') :: fl0) := by
  have hcall : ∀ (σ : State) (l : LV) (t : Bytes), retK σ [l] "UnmarshalText"
      (exec (X P) (fuel + 2) UnmarshalText_body ⟨[("p0", .bytes t)], ("lvl", .int 0) :: ("isnil", .bool false) :: fl0⟩) = _ :=
    fun σ l t => retK_of_fin1 σ _ _ _ _ _ (UnmarshalText_exec_matches_source P t 0 _ fuel)
  rw [exec_succ]
  unfold putURLSpec
  by_cases h0 : P.formValue r levelKey = []
  · exact ⟨a, b, by simp [decodePutURL_body, levelKey, mustSpecify, errV] at h0 ⊢; simp [h0]⟩
  · have h0' : (P.formValue r [108, 101, 118, 101, 108] == []) = false := by simpa [levelKey] using h0
    cases hu : (unmarshalInto P.lower 0 (P.formValue r levelKey)).1
    · exact ⟨.int (unmarshalInto P.lower 0 (P.formValue r levelKey)).2, .bool false, by simp [levelKey] at hu h0 ⊢; simp [decodePutURL_body, h0, h0', hcall, hu, unmarshalErr, unmarshalErrL, errV]⟩
    · exact ⟨.int (unmarshalInto P.lower 0 (P.formValue r levelKey)).2, .bool false, by simp [levelKey] at hu h0 ⊢; simp [decodePutURL_body, h0, h0', hcall, hu]⟩

/-- `decodePutJSON`: decoder error ⇒ "malformed request body"; no `level` member (nil pointer) ⇒ "must specify";
    else the level the decoder left -/
def putJSONSpec (P : Par) (body : Val) : Int × List Val :=
  if (P.jsonDecode body).2 ≠ [] then (0, malformedErr (P.jsonDecode body).2)
  else match (P.jsonDecode body).1 with
    | [.int l] => (l, [])
    | _ => (0, mustSpecify)

theorem decodePutJSON_exec_matches_source (P : Par) (body : Val) (fl : Env) (fuel : Nat)
    (hd : (P.jsonDecode body).1 = [] ∨ ∃ l, (P.jsonDecode body).1 = [.int l]) :
    (exec (X P) (fuel + 1) decodePutJSON_body ⟨[("p0", body)], fl⟩).fin =
      some ([.int (putJSONSpec P body).1, .list (putJSONSpec P body).2], fl) := by
  rw [exec_succ]
  unfold putJSONSpec
  cases he : (P.jsonDecode body).2 with
  | cons x xs =>
    have hp : ¬ ((xs.length : Int) + 1 = 0) := by omega
    simp [decodePutJSON_body, he, hp, malformedErr, errV]
  | nil =>
    rcases hd with h | ⟨l, h⟩
    · simp [decodePutJSON_body, he, h, mustSpecify, errV]
    · simp [decodePutJSON_body, he, h]

/-- `decodePutRequest`: the form decoder exactly for the url-encoded content type, the JSON decoder for anything else -/
def putSpec (P : Par) (ct : Bytes) (r body : Val) : Int × List Val :=
  if ct = formCT then putURLSpec P r else putJSONSpec P body

theorem decodePutRequest_exec_matches_source (P : Par) (ct method : Bytes) (header body rest a b : Val) (fl0 : Env) (fuel : Nat)
    (hd : (P.jsonDecode body).1 = [] ∨ ∃ l, (P.jsonDecode body).1 = [.int l]) :
    ∃ a' b', (exec (X P) (fuel + 4) decodePutRequest_body
        ⟨[("p0", .bytes ct), ("p1", reqV method header body rest)], ("lvl", a) :: ("isnil", b) :: fl0⟩).fin =
      some ([.int (putSpec P ct (reqV method header body rest) body).1, .list (putSpec P ct (reqV method header body rest) body).2],
        ("lvl", a') :: ("isnil", b') :: fl0) := by
  obtain ⟨a', b', hu⟩ := decodePutURL_exec_matches_source P (reqV method header body rest) a b fl0 fuel
  have hurl : ∀ σ : State, retK σ [.loc "l0", .loc "l1"] "decodePutURL"
      (exec (X P) (fuel + 3) decodePutURL_body ⟨[("p0", reqV method header body rest)], ("lvl", a) :: ("isnil", b) :: fl0⟩) = _ :=
    fun σ => retK_of_fin2 σ _ _ _ _ _ _ _ hu
  have hjson : ∀ σ : State, retK σ [.loc "l2", .loc "l3"] "decodePutJSON"
      (exec (X P) (fuel + 2 + 1) decodePutJSON_body ⟨[("p0", body)], ("lvl", a) :: ("isnil", b) :: fl0⟩) = _ :=
    fun σ => retK_of_fin2 σ _ _ _ _ _ _ _ (decodePutJSON_exec_matches_source P body _ (fuel + 2) hd)
  rw [exec_succ]
  unfold putSpec
  by_cases hc : ct = formCT
  · subst hc
    exact ⟨a', b', by simp [decodePutRequest_body, formCT, hurl]⟩
  · have hc' : (ct == formCT) = false := by simpa using hc
    refine ⟨a, b, ?_⟩
    simp only [formCT] at hc hc'
    simp [decodePutRequest_body, formCT, hc, hc', reqV, hjson]


def ctKey : Bytes := [67, 111, 110, 116, 101, 110, 116, 45, 84, 121, 112, 101]
def onlyGetPut : Bytes := [79, 110, 108, 121, 32, 71, 69, 84, 32, 97, 110, 100, 32, 80, 85, 84, 32, 97, 114, 101, 32, 115, 117, 112, 112, 111, 114, 116, 101, 100, 46]
def encV (w : Val) : Val := .list [nm "json.NewEncoder", w]
def encodeRec (w v : Val) : Val := .list [nm "json.Encode", encV w, .list [v]]
def headerRec (w : Val) (code : Int) : Val := .list [nm "ResponseWriter.WriteHeader", w, .int code]

/-- `AtomicLevel.serveHTTP`: (the calls on the response in order, the level afterwards, the error returned).
    GET: the current level is encoded.  PUT: the request is decoded; on error `WriteHeader(400)` and the error text, the
    level untouched; otherwise `SetLevel` and the NEW level is encoded.  Anything else: `WriteHeader(405)`. -/
def serveSpec (P : Par) (w : Val) (method : Bytes) (header body rest : Val) (cur : Int) : List Val × Int × List Val :=
  if method = [71, 69, 84] then ([encodeRec w (.int cur)], cur, P.encodeErr (encV w) (.list [.int cur]))
  else if method = [80, 85, 84] then
    let d := putSpec P (P.headerGet header ctKey) (reqV method header body rest) body
    if d.2.isEmpty then ([encodeRec w (.int d.1)], d.1, P.encodeErr (encV w) (.list [.int d.1]))
    else ([headerRec w 400, encodeRec w (.bytes (P.errText (.list d.2)))], cur, P.encodeErr (encV w) (.list [.bytes (P.errText (.list d.2))]))
  else ([headerRec w 405, encodeRec w (.bytes onlyGetPut)], cur, P.encodeErr (encV w) (.list [.bytes onlyGetPut]))

theorem serveHTTP_matches_source (P : Par) (w : Val) (method : Bytes) (header body rest a b : Val) (cur : Int) (ev : List Val)
    (fuel : Nat) (hd : (P.jsonDecode body).1 = [] ∨ ∃ l, (P.jsonDecode body).1 = [.int l]) :
    ∃ a' b', run (X P) (fuel + 5) "serveHTTP" [w, reqV method header body rest]
        [("lvl", a), ("isnil", b), ("level", .int cur), ("ev", .list ev)] =
      .done [.list (serveSpec P w method header body rest cur).2.2]
        [("lvl", a'), ("isnil", b'), ("level", .int (serveSpec P w method header body rest cur).2.1),
         ("ev", .list (ev ++ (serveSpec P w method header body rest cur).1))] := by
  obtain ⟨a', b', hp⟩ := decodePutRequest_exec_matches_source P (P.headerGet header ctKey) method header body rest a b
    [("level", .int cur), ("ev", .list ev)] fuel hd
  have hput : ∀ σ : State, retK σ [.loc "l2", .loc "l3"] "decodePutRequest"
      (exec (X P) (fuel + 4) decodePutRequest_body
        ⟨[("p0", .bytes (P.headerGet header ctKey)), ("p1", reqV method header body rest)],
         [("lvl", a), ("isnil", b), ("level", .int cur), ("ev", .list ev)]⟩) = _ :=
    fun σ => retK_of_fin2 σ _ _ _ _ _ _ _ hp
  have hfin : ∀ (a' b' : Val), (exec (X P) (fuel + 5) serveHTTP_body
        ⟨[("p0", w), ("p1", reqV method header body rest)], [("lvl", a), ("isnil", b), ("level", .int cur), ("ev", .list ev)]⟩).fin =
      some ([.list (serveSpec P w method header body rest cur).2.2],
        [("lvl", a'), ("isnil", b'), ("level", .int (serveSpec P w method header body rest cur).2.1),
         ("ev", .list (ev ++ (serveSpec P w method header body rest cur).1))]) →
      run (X P) (fuel + 5) "serveHTTP" [w, reqV method header body rest]
        [("lvl", a), ("isnil", b), ("level", .int cur), ("ev", .list ev)] = .done _ _ :=
    fun a' b' h => run_of_fin (X P) _ _ Gen.TransLevel.serveHTTP _ _ _ _ rfl rfl h
  by_cases hg : method = [71, 69, 84]
  · subst hg
    refine ⟨a, b, hfin a b ?_⟩
    rw [exec_succ]
    simp [serveSpec, serveHTTP_body, reqV, encodeRec, encV, nm_encode]
  · have hg' : (method == [71, 69, 84]) = false := by simpa using hg
    by_cases hpm : method = [80, 85, 84]
    · subst hpm
      cases hd2 : (putSpec P (P.headerGet header ctKey) (reqV [80, 85, 84] header body rest) body).2 with
      | nil =>
        refine ⟨a', b', hfin a' b' ?_⟩
        rw [exec_succ]
        simp only [ctKey, reqV] at hput hd2
        simp [serveSpec, serveHTTP_body, reqV, encodeRec, encV, nm_encode, ctKey, hput, hd2]
      | cons x xs =>
        have hlen : ¬ ((xs.length : Int) + 1 = 0) := by omega
        refine ⟨a', b', hfin a' b' ?_⟩
        rw [exec_succ]
        simp only [ctKey, reqV] at hput hd2
        simp [serveSpec, serveHTTP_body, reqV, encodeRec, encV, headerRec, nm_encode, nm_writeHeader, ctKey, hput, hd2, hlen]
    · have hpm' : (method == [80, 85, 84]) = false := by simpa using hpm
      refine ⟨a, b, hfin a b ?_⟩
      rw [exec_succ]
      simp [serveSpec, serveHTTP_body, reqV, encodeRec, encV, headerRec, nm_encode, nm_writeHeader, onlyGetPut, hg, hg', hpm, hpm']


/-- the status net/http sends for a handler's calls: the code of a leading `WriteHeader`, 200 when the first thing
    written is the body -/
def statusOf : List Val → Nat
  | .list [_, _, .int c] :: _ => c.toNat
  | _ => 200

/-- what links the parameters (net/http, encoding/json on this request) to the model's `Decoded`: the standard library
    hands the translated functions exactly what the model's request describes -/
def DecLink (P : Par) (header body r : Val) : Decoded → Prop
  | .form t lo => P.headerGet header ctKey = formCT ∧ P.formValue r levelKey = t ∧ P.lower t = lo
  | .json vals => P.headerGet header ctKey ≠ formCT ∧
      (match jsonFold none vals with
       | none => (P.jsonDecode body).2 ≠ []
       | some none => P.jsonDecode body = ([], [])
       | some (some l) => P.jsonDecode body = ([.int l], []))
  | .malformed => P.headerGet header ctKey ≠ formCT ∧ (P.jsonDecode body).2 ≠ []

theorem parse_lower_irrel (lower : Bytes → Bytes) (t lo : Bytes) (h : lower t = lo) : parse lower t = parse (fun _ => lo) t := by
  simp [parse, h]

/-- the translated `decodePutRequest` decides as the model's `decodePut` -/
theorem putSpec_is_decodePut (P : Par) (header body r : Val) (dec : Decoded) (h : DecLink P header body r dec) :
    (putSpec P (P.headerGet header ctKey) r body).2.isEmpty = (decodePut dec).isSome ∧
    ∀ l, decodePut dec = some l → (putSpec P (P.headerGet header ctKey) r body).1 = l := by
  cases dec with
  | form t lo =>
    obtain ⟨h1, h2, h3⟩ := h
    simp only [putSpec, h1, if_true, putURLSpec, h2, decodePut, unmarshalInto, parse_lower_irrel P.lower t lo h3]
    cases t with
    | nil => simp [mustSpecify]
    | cons c cs =>
      cases hp : parse (fun _ => lo) (c :: cs) with
      | none => simp [hp, unmarshalErrL]
      | some l => simp [hp]
  | json vals =>
    obtain ⟨h1, h2⟩ := h
    simp only [putSpec, h1, if_false, putJSONSpec, decodePut]
    cases hf : jsonFold none vals with
    | none =>
      simp only [hf] at h2
      simp [h2, malformedErr]
    | some st =>
      cases st with
      | none => simp only [hf] at h2; simp [h2, mustSpecify]
      | some l => simp only [hf] at h2; simp [h2]
  | malformed =>
    obtain ⟨h1, h2⟩ := h
    simp [putSpec, h1, putJSONSpec, decodePut, h2, malformedErr]

/-- the translated `serveHTTP` IS the model's `serve`: same status, same level afterwards, and a 200 answer carries the
    level in force — for every request whose standard-library decoding the model's `Decoded` describes -/
theorem serveHTTP_is_serve (P : Par) (w : Val) (mb : Bytes) (m : String) (header body rest : Val) (cur : Int) (dec : Decoded)
    (hG : mb = [71, 69, 84] ↔ m = "GET") (hP : mb = [80, 85, 84] ↔ m = "PUT")
    (h : DecLink P header body (reqV mb header body rest) dec) :
    statusOf (serveSpec P w mb header body rest cur).1 = (serve cur ⟨m, dec⟩).1 ∧
    (serveSpec P w mb header body rest cur).2.1 = (serve cur ⟨m, dec⟩).2.1 ∧
    (∀ l, (serve cur ⟨m, dec⟩).2.2 = some l → (serveSpec P w mb header body rest cur).1 = [encodeRec w (.int l)]) := by
  obtain ⟨hd1, hd2⟩ := putSpec_is_decodePut P header body (reqV mb header body rest) dec h
  unfold serve serveSpec
  by_cases hg : mb = [71, 69, 84]
  · have hm : m = "GET" := hG.mp hg
    simp [hg, hm, statusOf, encodeRec]
  · have hm : ¬ m = "GET" := fun e => hg (hG.mpr e)
    by_cases hp : mb = [80, 85, 84]
    · have hm2 : m = "PUT" := hP.mp hp
      subst hp
      cases hdec : decodePut dec with
      | none =>
        have he : ¬ (putSpec P (P.headerGet header ctKey) (reqV [80, 85, 84] header body rest) body).2 = [] := by
          have := hd1; rw [hdec] at this; simpa using this
        simp [hm, hm2, hdec, he, statusOf, headerRec]
      | some l =>
        have he : (putSpec P (P.headerGet header ctKey) (reqV [80, 85, 84] header body rest) body).2 = [] := by
          have := hd1; rw [hdec] at this; simpa using this
        have hl := hd2 l hdec
        simp [hm, hm2, hdec, he, hl, statusOf, encodeRec]
    · have hm2 : ¬ m = "PUT" := fun e => hp (hP.mpr e)
      simp [hg, hm, hp, hm2, statusOf, headerRec]


/-- the status decision of the translated handler is the one `http_status` states -/
theorem serveHTTP_status_is_model (P : Par) (w : Val) (mb : Bytes) (m : String) (header body rest : Val) (cur : Int) (dec : Decoded)
    (hG : mb = [71, 69, 84] ↔ m = "GET") (hP : mb = [80, 85, 84] ↔ m = "PUT")
    (h : DecLink P header body (reqV mb header body rest) dec) :
    statusOf (serveSpec P w mb header body rest cur).1 = (if m = "GET" then 200 else if m = "PUT" then
      (if (decodePut dec).isSome then 200 else 400) else 405) := by
  rw [(serveHTTP_is_serve P w mb m header body rest cur dec hG hP h).1]
  exact http_status cur ⟨m, dec⟩

/-- the translated handler changes the level only on a PUT that names a level, to exactly that level, answering 200 -/
theorem serveHTTP_changes_iff (P : Par) (w : Val) (mb : Bytes) (m : String) (header body rest : Val) (cur : Int) (dec : Decoded)
    (hG : mb = [71, 69, 84] ↔ m = "GET") (hP : mb = [80, 85, 84] ↔ m = "PUT")
    (h : DecLink P header body (reqV mb header body rest) dec) (hne : (serveSpec P w mb header body rest cur).2.1 ≠ cur) :
    m = "PUT" ∧ ∃ l, decodePut dec = some l ∧ (serveSpec P w mb header body rest cur).2.1 = l ∧
      statusOf (serveSpec P w mb header body rest cur).1 = 200 := by
  obtain ⟨h1, h2, _⟩ := serveHTTP_is_serve P w mb m header body rest cur dec hG hP h
  rw [h2] at hne
  obtain ⟨hm, l, hl1, hl2, hl3⟩ := http_changes_iff cur ⟨m, dec⟩ hne
  exact ⟨hm, l, hl1, by rw [h2]; exact hl2, by rw [h1]; exact hl3⟩

/-- a rejected text leaves the target of the translated `UnmarshalText` unmodified (`reject_unchanged` about the source) -/
theorem UnmarshalText_reject_unchanged (P : Par) (t : Bytes) (cur : Int) (fl0 : Env) (fuel : Nat) (h : parse P.lower t = none) :
    run (X P) (fuel + 2) "UnmarshalText" [.bytes t] (("lvl", .int cur) :: ("isnil", .bool false) :: fl0) =
      .done [unmarshalErr t] (("lvl", .int cur) :: ("isnil", .bool false) :: fl0) := by
  rw [UnmarshalText_matches_source, reject_unchanged P.lower cur t h]
  simp

/-- `Level.Enabled`: at or above -/
theorem Enabled_matches_source (P : Par) (l lvl : Int) (fl0 : Env) (fuel : Nat) :
    run (X P) (fuel + 1) "LevelEnabled" [.int lvl] (("lvl", .int l) :: fl0) = .done [.bool (decide (lvl ≥ l))] (("lvl", .int l) :: fl0) := by
  apply run_of_fin (X P) _ _ Gen.TransLevel.LevelEnabled _ _ _ _ rfl rfl
  rw [exec_succ]; simp [LevelEnabled_body]

/-- `MarshalText`: the bytes of `String()`, never an error -/
theorem MarshalText_matches_source (P : Par) (l : Int) (fl0 : Env) (fuel : Nat) :
    run (X P) (fuel + 2) "LevelMarshalText" [] (("lvl", .int l) :: fl0) = .done [.bytes (stringSpec P l), .list []] (("lvl", .int l) :: fl0) := by
  have hs := String_matches_source P l fl0 fuel
  have hfin : (exec (X P) (fuel + 1) LevelString_body ⟨[], ("lvl", .int l) :: fl0⟩).fin = some ([.bytes (stringSpec P l)], ("lvl", .int l) :: fl0) := by
    simp only [run, X_funs, funs_LevelString, LevelString_params_eq, LevelString_named_eq, LevelString_body_eq] at hs
    cases h : exec (X P) (fuel + 1) LevelString_body ⟨[], ("lvl", .int l) :: fl0⟩ <;> simp_all [Out.fin]
  have hcall : ∀ σ : State, retK σ [.loc "l0"] "LevelString" (exec (X P) (fuel + 1) LevelString_body ⟨[], ("lvl", .int l) :: fl0⟩) = _ :=
    fun σ => retK_of_fin1 σ _ _ _ _ _ hfin
  apply run_of_fin (X P) _ _ Gen.TransLevel.LevelMarshalText _ _ _ _ rfl rfl
  rw [exec_succ]; simp [LevelMarshalText_body, hcall]

/-- `(*Level).Set` (flag.Value): `UnmarshalText` of the string's bytes -/
theorem Set_matches_source (P : Par) (t : Bytes) (cur : Int) (fl0 : Env) (fuel : Nat) :
    run (X P) (fuel + 3) "LevelSet" [.bytes t] (("lvl", .int cur) :: ("isnil", .bool false) :: fl0) =
      .done [if (unmarshalInto P.lower cur t).1 then .list [] else unmarshalErr t]
        (("lvl", .int (unmarshalInto P.lower cur t).2) :: ("isnil", .bool false) :: fl0) := by
  have hcall : ∀ σ : State, retK σ [.loc "l0"] "UnmarshalText"
      (exec (X P) (fuel + 2) UnmarshalText_body ⟨[("p0", .bytes t)], ("lvl", .int cur) :: ("isnil", .bool false) :: fl0⟩) = _ :=
    fun σ => retK_of_fin1 σ _ _ _ _ _ (UnmarshalText_exec_matches_source P t cur fl0 fuel)
  apply run_of_fin (X P) _ _ Gen.TransLevel.LevelSet _ _ _ _ rfl rfl
  rw [exec_succ]; simp [LevelSet_body, hcall]

end ZapVerif.C20
