import ZapVerif.Model.Level
/-! # C20 — Level names and the level HTTP endpoint set exactly the requested level

Stated over the regenerated tables `Gen.levelText` (all 256 values, dumped from the running code) and
`Gen.levelNames` (the `unmarshalText` switch read from the source), so `lake build` re-proves them against
today's code. -/
namespace ZapVerif.C20
open ZapVerif ZapVerif.Level

/-- obligation on the regenerated table: it covers every int8 value exactly once, in order -/
theorem table_complete : Gen.levelText.map (·.1) = (List.range 256).map (fun (n : Nat) => (n : Int) - 128) := by
  decide +kernel

/-- every valid level round-trips through its lower-case and capital names and MarshalText,
    whatever `lower` is (the second clause uses the real ASCII lowering of the capital names
    only through the hypothesis that `lower` sends each capital name to the lower-case one) -/
theorem text_roundtrip (lower : Bytes → Bytes) :
    ∀ l ∈ validLevels, parse lower (stringOf l) = some l ∧ marshalOf l = some (stringOf l) := by
  have h : ∀ l ∈ validLevels, unmarshal1 (stringOf l) = some l ∧ marshalOf l = some (stringOf l) := by
    decide +kernel
  intro l hm
  simp [parse, (h l hm).1, (h l hm).2]

theorem capital_roundtrip (lower : Bytes → Bytes)
    (hl : ∀ l ∈ validLevels, lower (capitalOf l) = stringOf l) :
    ∀ l ∈ validLevels, parse lower (capitalOf l) = some l := by
  intro l hm
  have h1 : unmarshal1 (capitalOf l) = none := by
    revert l; decide +kernel
  have h2 : unmarshal1 (stringOf l) = some l := by
    revert l; decide +kernel
  simp [parse, h1, hl l hm, h2]

/-- the capital names are not themselves in the switch, and no two valid levels share a name -/
theorem names_injective : ∀ a ∈ validLevels, ∀ b ∈ validLevels, stringOf a = stringOf b → a = b := by
  decide +kernel

/-- text is accepted iff it, or its lower-cased image, is one of the names — for every `lower` -/
theorem parse_iff (lower : Bytes → Bytes) (t : Bytes) (l : Lvl) :
    parse lower t = some l ↔
      unmarshal1 t = some l ∨ (unmarshal1 t = none ∧ unmarshal1 (lower t) = some l) := by
  unfold parse
  cases h : unmarshal1 t <;> simp

/-- every accepted text names a valid level -/
theorem parse_valid (lower : Bytes → Bytes) (t : Bytes) (l : Lvl) (h : parse lower t = some l) : l ∈ validLevels := by
  have key : ∀ u, unmarshal1 u = some l → l ∈ validLevels := by
    intro u hu
    have := List.lookup_eq_some_iff.mp hu
    obtain ⟨l1, l2, heq, _⟩ := this
    have hm : (u, l) ∈ Gen.levelNames := by rw [heq]; simp
    have : ∀ p ∈ Gen.levelNames, p.2 ∈ validLevels := by decide +kernel
    exact this _ hm
  rcases (parse_iff lower t l).mp h with h | ⟨_, h⟩ <;> exact key _ h

/-- the empty string reads as info -/
theorem empty_is_info (lower : Bytes → Bytes) : parse lower [] = some 0 := by
  have h : unmarshal1 [] = some 0 := by decide +kernel
  simp [parse, h]

/-- rejected text leaves the target unmodified -/
theorem reject_unchanged (lower : Bytes → Bytes) (cur : Lvl) (t : Bytes) (h : parse lower t = none) :
    unmarshalInto lower cur t = (false, cur) := by
  simp [unmarshalInto, h]

/-- the endpoint changes the level only on a PUT that names a level, and then to exactly that level -/
theorem http_changes_iff (cur : Lvl) (r : Req) (h : (serve cur r).2.1 ≠ cur) :
    r.method = "PUT" ∧ ∃ l, decodePut r.dec = some l ∧ (serve cur r).2.1 = l ∧ (serve cur r).1 = 200 := by
  unfold serve at h ⊢
  by_cases hg : r.method = "GET"
  · simp [hg] at h
  · by_cases hp : r.method = "PUT"
    · cases hd : decodePut r.dec with
      | none => simp [hp, hd] at h
      | some l => simp [hp, hd]
    · simp [hg, hp] at h

theorem jsonFold_valid (vals : List JVal) (st : Option Lvl) (hst : ∀ x, st = some x → x ∈ validLevels)
    (y : Lvl) (hy : (jsonFold st vals).join = some y) : y ∈ validLevels := by
  induction vals generalizing st with
  | nil => simp [jsonFold] at hy; exact hst y hy
  | cons v vs ih =>
    cases v with
    | null => simp only [jsonFold] at hy; exact ih none (by simp) hy
    | bad => simp [jsonFold] at hy
    | text t lo =>
      simp only [jsonFold] at hy
      cases hp : parse (fun _ => lo) t with
      | none => simp [hp] at hy
      | some l' =>
        simp only [hp] at hy
        exact ih (some l') (by intro x hx; cases hx; exact parse_valid _ t l' hp) hy

/-- a level set through the endpoint is always a valid level -/
theorem http_sets_valid (cur : Lvl) (r : Req) (h : (serve cur r).2.1 ≠ cur) : (serve cur r).2.1 ∈ validLevels := by
  obtain ⟨_, l, hd, hl, _⟩ := http_changes_iff cur r h
  rw [hl]
  cases hdec : r.dec with
  | malformed => simp [hdec, decodePut] at hd
  | form t lo =>
    simp only [hdec, decodePut] at hd
    split at hd
    · simp at hd
    · exact parse_valid _ t l hd
  | json vals =>
    simp only [hdec, decodePut] at hd
    exact jsonFold_valid vals none (by simp) l hd

/-- status codes: GET and successful PUT 200; PUT without a valid level 400; any other method 405 -/
theorem http_status (cur : Lvl) (r : Req) :
    (serve cur r).1 = (if r.method = "GET" then 200 else if r.method = "PUT" then
      (if (decodePut r.dec).isSome then 200 else 400) else 405) := by
  unfold serve
  by_cases hg : r.method = "GET"
  · simp [hg]
  · by_cases hp : r.method = "PUT"
    · cases hd : decodePut r.dec <;> simp [hp, hd]
    · simp [hg, hp]

/-- a 200 response reports the level in force after the request; other statuses leave the level unchanged -/
theorem http_reports_in_force (cur : Lvl) (r : Req) :
    ((serve cur r).1 = 200 → (serve cur r).2.2 = some (serve cur r).2.1) ∧
    ((serve cur r).1 ≠ 200 → (serve cur r).2.1 = cur) := by
  unfold serve
  by_cases hg : r.method = "GET"
  · simp [hg]
  · by_cases hp : r.method = "PUT"
    · cases hd : decodePut r.dec <;> simp [hp, hd]
    · simp [hg, hp]

/-- non-vacuity -/
example : serve 0 ⟨"PUT", .form [100, 101, 98, 117, 103] [100, 101, 98, 117, 103]⟩ = (200, -1, some (-1)) := by
  decide +kernel
example : serve 2 ⟨"PUT", .json [.text [68, 69, 66, 85, 71] [100, 101, 98, 117, 103], .null]⟩ = (400, 2, none) := by
  decide +kernel

end ZapVerif.C20
