import ZapVerif.Proofs.GoMiniFuel
import ZapVerif.Gen.TransProbe
/-! # CTR — self-test of the Go→GoMini translator (not a zap property)

The differential test (`bin/check CTR`) runs every translated function compiled by Go and interpreted by GoMini on
the same inputs.  The theorems here are sanity facts about the interpreter on generated probe terms, proved by
evaluation: they pin the semantics decisions of docs/TRANSLATOR.md to concrete instances. -/
namespace ZapVerif.CTR
open ZapVerif ZapVerif.GoMini ZapVerif.Gen.TransProbe

def X : Ctx := { ext := fun _ _ => none, funs := funs }

/-- uint32 arithmetic wraps: 4294967295 + 7 = 6, 7 − 4294967295 = 8, … -/
theorem probe_u32_wraps :
    run X 1 "probeU32" [.int 7, .int 4294967295] [] =
      .done [.int 6, .int 8, .int 4294967289, .int 4294967288, .int 7, .int 4294967295, .int 2147483648, .int 0] [] := by
  rfl

/-- signed division truncates toward zero and `MinInt64 / -1` wraps -/
theorem probe_div_truncates :
    run X 1 "probeDiv" [.int (-7), .int 2] [] = .done [.int (-3), .int (-1)] [] ∧
    run X 1 "probeDiv" [.int (-9223372036854775808), .int (-1)] [] = .done [.int (-9223372036854775808), .int 0] [] ∧
    run X 1 "probeDiv" [.int 1, .int 0] [] = .panic .divide := by
  refine ⟨?_, ?_, ?_⟩ <;> rfl

/-- slicing and indexing panic exactly outside `0 ≤ lo ≤ hi ≤ len` / `0 ≤ i < len` -/
theorem probe_bounds :
    run X 1 "probeSlice" [.bytes [1, 2, 3], .int 1, .int 3] [] = .done [.bytes [2, 3]] [] ∧
    run X 1 "probeSlice" [.bytes [1, 2, 3], .int 2, .int 1] [] = .panic .slice ∧
    run X 1 "probeSlice" [.bytes [1, 2, 3], .int 0, .int 4] [] = .panic .slice ∧
    run X 1 "probeIndex" [.bytes [1, 2, 3], .int 3] [] = .panic .index ∧
    run X 1 "probeIndex" [.bytes [1, 2, 3], .int (-1)] [] = .panic .index := by
  refine ⟨?_, ?_, ?_, ?_, ?_⟩ <;> rfl

/-- fuel monotonicity of the interpreter, for every program and state: an execution that does not run out of fuel
    is unchanged by more fuel — `Out.oof` is the only fuel-dependent outcome, so "`fuel + k` units suffice" in the
    `…_matches_source` theorems means "every amount from `k` on gives this same result" -/
theorem fuel_monotone (X : Ctx) (fuel extra : Nat) (s : Stmt) (σ : State) (h : exec X fuel s σ ≠ .oof) :
    exec X (fuel + extra) s σ = exec X fuel s σ := exec_mono X fuel extra s σ h

/-- the intrinsics of the round-2 probes -/
def X2 : Ctx :=
  { ext := fun f a => match f, a with
      | "probe.note", [.int x] => some [.int (x + 1)]
      | "probe.done", [] => some []
      | _, _ => none,
    funs := funs }

/-- `defer r.done()` runs after the results have been evaluated — `note(3)`, `note(5)`, then `done` — on both return paths;
    recorded calls in argument position keep their source order -/
theorem probe_defer_runs_last :
    run X2 2 "probeDefer" [.int 3, .int 5] [("n", .int 0), ("ev", .list [])] =
      .done [.int 6] [("n", .int 1), ("ev", .list [
        .list [.bytes [112, 114, 111, 98, 101, 46, 110, 111, 116, 101], .int 3],
        .list [.bytes [112, 114, 111, 98, 101, 46, 110, 111, 116, 101], .int 5],
        .list [.bytes [112, 114, 111, 98, 101, 46, 100, 111, 110, 101]]])] ∧
    run X2 2 "probeDefer" [.int (-4), .int 5] [("n", .int 0), ("ev", .list [])] =
      .done [.int (-3)] [("n", .int 1), ("ev", .list [
        .list [.bytes [112, 114, 111, 98, 101, 46, 110, 111, 116, 101], .int (-4)],
        .list [.bytes [112, 114, 111, 98, 101, 46, 100, 111, 110, 101]]])] := by
  refine ⟨?_, ?_⟩ <;> rfl

/-- nil-able values: `nil` is the empty list, interface equality is value equality -/
theorem probe_nilable :
    run X2 2 "probeNilable" []
        [("n", .int 0), ("link", .list [.int 1]), ("other", .list [.int 1]), ("sub", .list []), ("ev", .list [])] =
      .done [.bool false, .bool true, .bool false, .int 0]
        [("n", .int 0), ("link", .list [.int 1]), ("other", .list [.int 1]), ("sub", .list []), ("ev", .list [])] ∧
    run X2 2 "probeNilable" []
        [("n", .int 0), ("link", .list []), ("other", .list [.int 2]), ("sub", .list [.int 7, .bytes [1]]), ("ev", .list [])] =
      .done [.bool false, .bool true, .bool true, .int 7]
        [("n", .int 0), ("link", .list []), ("other", .list [.int 2]), ("sub", .list [.int 7, .bytes [1]]), ("ev", .list [])] := by
  refine ⟨?_, ?_⟩ <;> rfl

end ZapVerif.CTR
