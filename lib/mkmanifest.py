#!/usr/bin/env python3
"""Regenerates MANIFEST.json from lib/zvprops.py (claimed checks) and properties.jsonl (not_applicable for the rest)."""
import json, os, sys
sys.path.insert(0, os.path.dirname(os.path.abspath(__file__)))
from zvprops import PROPS
V = os.path.dirname(os.path.dirname(os.path.abspath(__file__)))
ids = [json.loads(l)["id"] for l in open(os.path.join(V, "properties.jsonl")) if l.strip()]
checks = []
for pid in ids:
    if pid not in PROPS or PROPS[pid].get("unclaimed"):
        continue
    c = PROPS[pid]
    checks.append({
        "property_id": pid,
        "quick_cmd": "bin/check %s --tier quick" % pid,
        "thorough_cmd": "bin/check %s --tier thorough" % pid,
        "evidence_file": "evidence/%s.json" % pid,
        "replay_cmd_template": "bin/check %s --replay {path}" % pid,
        "engine": "lean-proofs",
        "technique": c.get("technique", "Lean 4 theorems over a model of the code, tied to /repo by regenerated tables (zvgen) and a differential correspondence check (zvh vs zvdrv)"),
        "level_claimed": {"category": "proof", "text": c.get("level_text", "Property stated as Lean 4 theorems about an executable model; kernel-checked, axioms ⊆ {propext, Classical.choice, Quot.sound}; model tied to the current source on every run."),
                          "design_ref": "DESIGN.md §5 " + pid},
        "level_note": c.get("level_note", "Trusted: Lean kernel, zvgen/zvh/zvdrv tie, Go runtime and standard library (DESIGN.md §3)."),
    })
na = [{"property_id": pid, "reason": (PROPS.get(pid, {}).get("unclaimed") or "check not built yet in this revision (planned: see DESIGN.md §5 %s); no claim is made" % pid)}
      for pid in ids if pid not in PROPS or PROPS[pid].get("unclaimed")]
m = {
    "version": 1,
    "setup_cmd": "bin/setup.sh",
    "hooks": {"guard": "verif", "enable": "go build -tags verif", "baseline_off_cmd": "bin/baseline.sh", "source_commits": [], "add_only": True},
    "engines": [
        {"name": "lean-proofs", "path": "lean/", "serves_properties": [c["property_id"] for c in checks], "kind_free_text": "Lean 4 models (Model/, Gen/), theorems (Props/), axiom audit, compiled model driver zvdrv"},
        {"name": "zvgen", "path": "gen/", "kind_free_text": "go/ast fact extractor and dynamic dumps → lean/ZapVerif/Gen/*.lean, regenerated every run"},
        {"name": "zvh", "path": "harness/", "kind_free_text": "Go harness: generators, real-zap executor, independent property oracles (differential correspondence against zvdrv)"},
    ],
    "checks": checks,
    "not_applicable": na,
    "notes": "All checks are driven by bin/check (lib/zv.py). known_findings.json lists repaired (fixed:) and recorded (known) genuine defects.",
}
json.dump(m, open(os.path.join(V, "MANIFEST.json"), "w"), indent=1, ensure_ascii=False)
print("checks:", [c["property_id"] for c in checks], "not_applicable:", len(na))
