#!/usr/bin/env python3
"""Regenerates DESIGN.md §9.1 from seeded/*/meta.json."""
import json, os, re
V = os.path.dirname(os.path.dirname(os.path.abspath(__file__)))
rows = []
for d in sorted(os.listdir(os.path.join(V, "seeded"))):
    mp = os.path.join(V, "seeded", d, "meta.json")
    if not os.path.exists(mp):
        continue
    m = json.load(open(mp))
    notes = ""
    np_ = os.path.join(V, "seeded", d, "notes.md")
    if os.path.exists(np_):
        notes = open(np_).read()
    title = m.get("title") or ""
    if not title:
        for line in notes.splitlines():
            line = line.strip().lstrip("#").strip()
            if line and not line.lower().startswith(("notes", "seed", "change ")) or (line.lower().startswith("change") and ":" in line):
                title = line
                break
    title = re.sub(r"\s+", " ", title)[:150]
    patch = open(os.path.join(V, "seeded", d, "patch.diff")).read()
    files = sorted(set(re.findall(r"^\+\+\+ b/(\S+)", patch, re.M)))
    res = "; ".join("%s %s" % (k, v) for k, v in m.get("check_results", {}).items())
    sigs = []
    for s in m.get("violation_signatures", []):
        t = s.get("sig", "")
        if s.get("nofail"):
            t += " (no-failing-input-found)"
        if t and t not in sigs:
            sigs.append(t)
    hist = "yes — " + m["history"] if m.get("history") else ""
    rows.append("| %s | %s | %s | %s | %s | %s |" % (m["id"], ", ".join(files), title.replace("|", "/"), res, "<br>".join(sigs[:3]).replace("|", "/"), hist.replace("|", "/")))
tab = "| seed | file(s) changed | change | result | reported as | strengthened after a miss? |\n|---|---|---|---|---|---|\n" + "\n".join(rows)
p = os.path.join(V, "DESIGN.md")
s = open(p).read()
s = re.sub(r"<!-- SEEDTABLE BEGIN -->.*<!-- SEEDTABLE END -->", "<!-- SEEDTABLE BEGIN -->\n" + tab + "\n<!-- SEEDTABLE END -->", s, flags=re.S)
open(p, "w").write(s)
print(len(rows), "seeded changes")
