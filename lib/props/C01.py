"""check configuration for C01 (loaded by lib/zvprops.py)"""

PROP = {
 'gen_tables': ['LevelText', 'JsonAdd', 'TransJsonSep', 'TransEscape'],
 'rule': 'ops: random entries × encoder configs (7 keys each empty/plain/hostile/duplicate; built-in, nil and no-op sub-encoders; time layouts incl. '
         'ones needing escapes; line endings) × With-chains (≤3) × call-site fields (every field kind; nested object/array/inline/dict/namespace '
         'marshalers to depth ≤4; hostile strings: invalid UTF-8, control bytes, quotes; NaN/Inf; boundary ints; failing marshalers, panicking / nil '
         'Stringers and errors, unencodable reflected values); non-trivial = ≥2 fields+With levels; distinct = distinct canonical op JSON',
 'assumptions': ['strconv float text, time.Format text, base64 text and encoding/json output of reflected values are opaque leaves supplied by the harness (stdlib only)',
                 'sub-encoder functions are parameters: the op carries what each configured function appended, observed on a recording PrimitiveArrayEncoder'],
 'technique': 'Lean 4: induction over nested encoder call trees (stream = compositional output = rendered tree), escape automaton lemma over all 256 bytes; tie: byte-level correspondence + regenerated JsonAdd/LevelText tables',
 'level_text': 'jsonLine_wellformed is proved for every configuration, entry, With-chain and field tree of the model (unbounded depth); the model is compared byte-for-byte with the real encoder on every run and judged by an independent json.Valid/one-line oracle.',
 'level_note': 'Assumes the stdlib leaves (strconv float text, time.Format, base64, encoding/json output) are well-formed tokens as stated in ScalarOK/PrimOK; sub-encoder results are parameters.',
}
