"""check configuration for C01 (loaded by lib/zvprops.py)"""

PROP = {
 'gen_tables': ['LevelText', 'JsonAdd'],
 'rule': 'ops: random entries × encoder configs (7 keys each empty/plain/hostile/duplicate; built-in, nil and no-op sub-encoders; time layouts incl. '
         'ones needing escapes; line endings) × With-chains (≤3) × call-site fields (every field kind; nested object/array/inline/dict/namespace '
         'marshalers to depth ≤4; hostile strings: invalid UTF-8, control bytes, quotes; NaN/Inf; boundary ints; failing marshalers, panicking / nil '
         'Stringers and errors, unencodable reflected values); non-trivial = ≥2 fields+With levels; distinct = distinct canonical op JSON',
 'assumptions': ['strconv float text, time.Format text, base64 text and encoding/json output of reflected values are opaque leaves supplied by the harness (stdlib only)',
                 'sub-encoder functions are parameters: the op carries what each configured function appended, observed on a recording PrimitiveArrayEncoder'],
}
