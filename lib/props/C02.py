"""check configuration for C02 (loaded by lib/zvprops.py)"""

PROP = {
 'gen_tables': ['LevelText', 'EntryMeta', 'LevelColor', 'SubEncSrc'],
 'rule': 'ops: random entries × encoder configs (7 keys each empty/plain/hostile/duplicate; built-in, nil and no-op sub-encoders; time layouts incl. '
         'ones needing escapes; line endings) × With-chains (≤3) × call-site fields (every field kind; nested object/array/inline/dict/namespace '
         'marshalers to depth ≤4; hostile strings: invalid UTF-8, control bytes, quotes; NaN/Inf; boundary ints; failing marshalers, panicking / nil '
         'Stringers and errors, unencodable reflected values); non-trivial = ≥2 fields+With levels; distinct = distinct canonical op JSON',
 'assumptions': ['strconv float text, time.Format text, base64 text and encoding/json output of reflected values are opaque leaves supplied by the harness (stdlib only)',
                 'sub-encoder functions are parameters: the op carries what each configured function appended, observed on a recording PrimitiveArrayEncoder'],
 'technique': 'Lean 4: encodeEntry = render(tree) by induction on call trees, parse∘render = id on emitted trees, unescape∘escape = sanitize, decimal round trip for all Int; tie: byte-level correspondence + independent reference decoding',
 'level_text': 'The decoded tree of every emitted line is proved to be exactly metadata, context and call-site fields in order with namespaces nesting the rest; strings and integers are proved recoverable; floats/base64/sub-encoder formats are checked by the oracle only.',
 'level_note': "Float shortest-round-trip text, base64 and the built-in sub-encoders' layouts are trusted stdlib/zap leaves validated only by the independent reference oracle.",
}
