"""check configuration for C03 (loaded by lib/zvprops.py)"""
import os, re, subprocess


def _post(check, broken, details, cov):
    """every constructor row of the regenerated table must be driven by the harness (zvh dump C03Ctors), except the two
    whose value is the runtime stack (C15)"""
    import zv
    gen = os.path.join(zv.LEAN, "ZapVerif", "Gen", "Fields.lean")
    if not os.path.exists(gen):
        return
    rows = re.findall(r'^  ⟨"(\w+)", "(\w+)", (true|false), ', open(gen).read(), re.M)
    want = {"%s.%s" % (pkg, name) for name, pkg, exp in rows if exp == "true"} - {"zap.Stack", "zap.StackSkip"}
    try:
        out = subprocess.run([os.path.join(zv.BIN, "zvh"), "dump", "C03Ctors"], capture_output=True, env=zv.ENV).stdout.decode()
    except Exception as e:  # the build already failed: reported elsewhere
        return
    have = {l.strip().rstrip("*") for l in out.splitlines() if l.strip()}
    missing = sorted(want - have)
    cov["constructors_in_source"] = len(want)
    cov["constructors_driven"] = len(want & have)
    if missing:
        broken.append(("corr:coverage", "exported constructors not driven by the harness: " + ", ".join(missing)))


PROP = {'gen_tables': ['Fields', 'AddTo', 'Any', 'Equals'],
 'post': _post,
 'rule': 'ops: (1) every exported constructor of package zap and zapfield (enumerated by Gen from the source; coverage of the harness '
         'table checked against it) × boundary values of its parameter type (min/max of every width and of every narrower width ±1, '
         'float bit patterns incl. -0, ±Inf, quiet/signalling NaN payloads, subnormals; times at 0, ±1 ns, ±2^63 ns ±1, the zero '
         'Time, year 9999, far outside, × 8 time.Location kinds; nil/empty/aliasing byte slices; nil pointers; nil interfaces; nil, '
         'empty and random slices) + random values, through a recording ObjectEncoder/ArrayEncoder; (2) zap.Any with every '
         'supported dynamic type and with every pool value (marshalers, errors, Stringers, values implementing several of these, '
         'plain values) against the typed constructor; (3) Field.Equals on pairs (equal inputs, same constructor, other '
         'constructors) incl. uncomparable and non-reflexive payloads, under recover. non-trivial = any op except Skip(); '
         'distinct = distinct canonical op JSON',
 'assumptions': ['64-bit platform: int, uint and uintptr are 64 bits wide',
                 'math.Float64bits/Float32bits and their inverses are bijections on bit patterns (floats are modelled as their bits; '
                 'the recorder compares bits)',
                 'time.Time is (instant, *Location); Location() is never nil; time.Unix(0,n).In(loc) has instant n and location loc; '
                 'UnixNano is exact mod 2^64',
                 "Go's == on interface values and reflect.DeepEqual on opaque payloads follow the model's ifaceEq/deepEq (same "
                 'dynamic type and equality class; == panics on uncomparable types; both irreflexive on NaN/func); attributes of '
                 'the pool values are computed with reflect',
                 'encodeStringer/encodeError are modelled only for Stringers that return normally and plain errors (C10 covers the '
                 'rest); Stack/StackSkip are not modelled (C15)'],
 'technique': 'Lean 4: per-constructor round-trip obligations over tables regenerated from field.go/array.go/error.go/zapfield and the AddTo/Any/Equals switches (Go conversions as Int wrap-around, closed by omega; tables by decide); tie: Gen + recording-encoder correspondence',
 'level_text': "ctors_ok has one goal per exported constructor of today's source, so a changed cast or tag fails `lake build`; Any's case order/completeness and Equals totality/symmetry are decided over the regenerated switches.",
 'level_note': '64-bit int/uint/uintptr; floats as bit patterns; Go == and reflect.DeepEqual on opaque payloads are modelled; reflexivity of Equals is partial (known finding F3b).',
}
