"""check configuration for C04 (loaded by lib/zvprops.py)"""

PROP = {'gen_tables': ['IoFacts'],
 'race': True,
 'rule': 'draft',
 'assumptions': []}
