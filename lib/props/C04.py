"""check configuration for C04 (loaded by lib/zvprops.py)"""

PROP = {'gen_tables': ['IoFacts'],
 'race': True,
 'rule': 'ops: (1) grid — every sink kind (Lock(sink), zap.Open of a registered recording sink / of a real file / of both, '
         'CombineWriteSyncers of two sinks, BufferedWriteSyncer over a bare / Locked / zap.Open sink) alone and in a tee with a second branch '
         '(other encoder, other minimum level) × 4 goroutines × every front end (Logger level methods, Log, Check+Write, SugaredLogger w/f/ln, '
         'std-log bridge, zapgrpc, zapio.Writer by newline and by Close, zapslog.Handler, direct Core.Write) at every level it can express; line '
         'sizes at the buffer boundary on 2/4/8 goroutines; goroutine-local children in every derivation flavour (With, WithLazy with and '
         'without spare slice capacity, Sugar().WithLazy / With, Named, WithOptions(Fields), Sugar/Desugar round trip) derived concurrently '
         'from ONE shared never-logged template (base, With, WithLazy with spare capacity, Sugar().WithLazy, lazy-on-lazy) × 2/4/8 goroutines, '
         'siblings re-derived between entries; poison preludes — every goroutine first logs entries whose extra field fails to encode (failing '
         'reflection incl. nested, failing marshaler, panicking Stringer / error; through Log, Check, Sugar, slog, Core.Write) and then all '
         'encode at once; one registered-scheme URL opened more than once with a factory returning a fresh recorder per call (two branches '
         'of one tee, 2–3 separately built loggers, 2–3 loggers from zap.Config.Build) — every recorder must hold exactly its own '
         'logger/branch; 2–3 loggers whose tees are built from ONE caller-owned core slice with no-op cores at various positions (the slice '
         'must read the same afterwards); (2) random programs (all of the above mixed in: poison entries 1/25, several loggers 5/12, no-op '
         'cores 1/4): 1–8 goroutines × 3–40 (thorough ≤ 400) actions {log, With, derive (any '
         'flavour, from the own logger or from the shared template), switch to a shared With-child, Logger.Sync, BufferedWriteSyncer.Sync, clock tick, yield} on tees of 1–3 branches (encoders json/console/json2, '
         'minimum level −1/0/1, buffer 64…1024 and the 256 kB default, sampler in 1/8), message sizes from 0 to 2×buffer, GOMAXPROCS 1–16, '
         'runtime.Gosched inside the sink every 1–3 writes, unsynchronised or field-synchronised recorders; (3) hostile: Sync/tick storms around '
         'lines of 3–5× the buffer on 64-byte and default buffers; (4) 1 500 (thorough 20 000) synthetic histories — random merges, then lost / '
         'duplicated / swapped / byte-interleaved / merged / corrupted lines, writes split, joined or empty — judged by the Go oracle and by the Lean '
         'predicates. Every program is built with -race, run under a watchdog (re-run alone before a deadlock is reported; at most 3 '
         'expiries and 25 process deaths per check run, counted across harness processes, then the rest is skipped), drained '
         '(Logger.Sync, Stop, Close) before judging; expected lines come from replaying each goroutine alone on a fresh logger over private '
         'buffers; the recorded Write calls of every sink are judged by the independent Go merge oracle AND piped to zvdrv (validMerge / '
         'validCalls / validLines), verdicts compared. non-trivial = ≥2 goroutines that log and ≥1 recording sink (histories: ≥1 write); '
         'distinct = distinct canonical op JSON',
 'assumptions': ["Go's sync.Mutex provides mutual exclusion and sync.Pool never hands out an object that is still in use (the guards `lock = none` / "
                 "`owner = none` of the step relation); trusted runtime",
                 'encoding an entry touches only the per-call encoder clone and its pooled buffer (Gen/IoFacts: jsonEncoder.clone, '
                 'EncodeEntry frame, buffer.Pool.Get; the absence of other shared state is C08/C09 and the race detector)',
                 'a sink Write is modelled as handing over the bytes one by one (no assumption that the sink is atomic); bufio.Writer is modelled '
                 'by the two paths zap can reach after its own pre-flush (direct write with an empty buffer, copy) — its chunking path is '
                 'unreachable by BufferedWriteSyncer.Write (IoFacts pins the pre-flush condition); sink errors and short writes are C10/C12/C13',
                 'the step from the regenerated statement lists (IoFacts) to "the code follows the step relation" is by inspection: the lists are '
                 'compared verbatim with the ones the model was written against',
                 'schedules of the real runtime are sampled (GOMAXPROCS, Gosched injection), not enumerated; the theorems quantify over all '
                 'schedules of the model',
                 'only accepted entries count: a disabled level or a sampler drop is legitimate (the oracle observes sampler admissions through an '
                 'always-enabled recording branch inside the sampler); a bare unlocked sink is outside the property (unlocked_can_tear)'],
 'technique': 'Lean 4: invariant of a byte-granular step machine (pooled per-call buffers, one mutex per tee branch, Lock(sink) and '
              'BufferedWriteSyncer branches, flush ticks and Syncs as goroutines) over all programs, line lengths and schedules; executable '
              'merge predicates proved sound and complete; tie: go/ast statement lists of the mirrored functions (IoFacts) + histories of real '
              'loggers under -race judged by the Lean predicates and an independent Go oracle',
 'level_text': 'sink_inv, sink_final_is_merge, tee_each_branch_full, bws_whole_line_writes, bws_sink_is_merge and bws_final_validCalls hold for '
               'every number of goroutines, every program, every line length (also above the buffer) and every schedule of the model; '
               'unlocked_can_tear and early_free_can_corrupt show that the mutex and the free-after-write discipline are what the proofs use.',
 'level_note': 'Proof of the protocol, not of the Go source: that sync.Mutex is a mutex, that sync.Pool does not alias live buffers and that the '
               'real scheduler offers nothing beyond the model\'s interleavings is trusted; real schedules are sampled under -race. Termination '
               '(every run reaches Finished) is not proved here (deadlock freedom is C09).',
}
