"""check configuration for C05 (loaded by lib/zvprops.py)"""

PROP = {'gen_tables': ['FrontEnds', 'TransCores', 'TransCEAdd', 'TransLogger', 'TransCtor', 'TransLevel'],
 'rule': 'ops: one core tree (io/observer leaves with arbitrary enablers incl. static Level and shared AtomicLevels; nop, tee, IncreaseLevel, '
         'hooks, sampler, lazy-with, With anywhere) + a history of calls (level queries over all 256 levels, log calls through any front end, '
         'AtomicLevel changes). exhaustive: all 2^7 enablers on 6 shapes of depth ≤ 2 at every valid level, every front end on a fixed tree at '
         '3 thresholds; random trees of depth ≤ 6 (quick) / ≤ 10 (thorough) probed at all valid levels + 5 out-of-range ones, every 40th tree at '
         'all 256 levels; non-trivial = depth ≥ 2 with at least one delivering and one non-delivering call; distinct = distinct canonical op JSON',
 'assumptions': ['the sampler decision is an oracle bit of the model (pass = first 2^30, drop = first 0/thereafter 0 in the harness); C11 covers the '
                 'counting itself',
                 'observer leaves are read after each call: the order of observer writes relative to other events is not compared (io leaves '
                 'carry the ordering)',
                 'Core.With(a).With(b) is modelled as one push-down of a ++ b (same per-leaf marshal order, same emissions)'],
 'technique': 'Lean 4: structural induction over the core algebra (tee/increase-level/hooks/sampler/lazy/with over arbitrary enablers): delivered leaves = open paths; front-end guard table regenerated from source; tie: correspondence on random core trees × levels × front ends + translated source (the Check/Enabled methods of ioCore, levelFilterCore, hooked, multiCore, AddCore, the level guards of Logger.check and SugaredLogger.log proved equal to the model); Logger.Sync reaches every io leaf; NewIncreaseLevelCore, NewTee, multiCore.Level, levelFilterCore.Level, LevelOf proved to be incrValid, mkTee, levelOfAll, leastValid',
 'level_text': 'leaf_delivery_iff, hook_fires_iff, disabled_no_effects and levelOf_min are proved for every core tree of the model; the front-end obligations are decided over the regenerated FrontEnds table.',
 'level_note': 'Sampler decisions are an oracle bit here (counted under C11); Enabled-completeness is partial (known findings F6/F6b).',
}
