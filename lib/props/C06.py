"""check configuration for C06 (loaded by lib/zvprops.py)"""

PROP = {'gen_tables': ['FrontEnds', 'TransCE', 'TransCEAdd', 'TransLogger', 'TransGrpc'],
 'rule': 'ops: one call through a front end (every exported log method of Logger, SugaredLogger, zapgrpc.Logger incl. WithDebug, the std-log '
         'bridge; Check+Write) at DPanic/Panic/Fatal (plus lower/out-of-range levels as negative control) × 10 core compositions (nop, enabled / '
         'disabled io leaf, dropping sampler, tees, hooks, lazy, IncreaseLevel, With) × hook ∈ {nil, no-op, Goexit, Panic, Fatal, custom} × '
         'development on/off (grid sampled 1/3 in the quick tier, full in thorough) + random core trees; calls whose prescribed action is the '
         'real process exit (and a sample of default panics) run in a re-executed child process writing through BufferedWriteSyncer→file; '
         'non-trivial = a terminal action is prescribed; distinct = distinct canonical op JSON',
 'assumptions': ['os.Exit / panic / runtime.Goexit themselves are observed (exit status 1 / status 2 + "panic: <msg>" on stderr / goroutine end), '
                 'not proved',
                 'the order of observer-leaf writes relative to other events is not observable (io leaves carry the ordering)'],
 'technique': 'Lean 4: theorems over the regenerated front-end/guard table (every front end reaches the terminal action at DPanic(dev)/Panic/Fatal; write and sync precede it); tie: Gen + spies + real subprocesses observing exit status and file contents + translated source (CheckedEntry.Write: the terminal hook runs iff set, last; Logger.check\'s terminal switch; terminalHookOverride) + failing-sink delivery model + translated zapgrpc printers (Fatal-level Println never skipped)',
 'level_text': 'frontends_exact makes any new or changed guard in logger.go/sugar.go/global.go/zapgrpc.go a failing proof; the event order write → sync → terminal is proved for every core tree and observed on real processes.',
 'level_note': 'Process exit, panic propagation and Goexit are observed from outside, not proved.',
}
