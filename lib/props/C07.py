"""check configuration for C07 (loaded by lib/zvprops.py)"""

PROP = {'gen_tables': ['SliceOwn', 'TransDerive'],
 'rule': 'ops: derivation programs over a root core (8 fixed compositions — io, observer, tee, sampler, hooks, IncreaseLevel, lazy, With — and '
         'random C05 trees): steps With / WithLazy / WithOptions(Fields) / Named / Sugar / Desugar on plain and sugared loggers, a zapslog handler '
         'branch (WithAttrs / WithGroup / Handle), log calls at any point (derive-after-use, sibling interleavings), mutations of mutable '
         'marshalers; field lists of length 0,1,2,3,4,5,7,8,9 (slice capacities), fields = observable object marshalers (constant or reading a '
         'mutable cell), namespaces, ints, strings; every node is re-logged at the end in random order. exhaustive: every derivation tree with '
         '≤ 3 (quick) / ≤ 4 (thorough) derived nodes × {With, WithLazy}^n × 3 use orders. non-trivial = ≥ 3 nodes and ≥ 2 log calls; distinct = '
         'distinct canonical op JSON',
 'assumptions': ['Core.With(a).With(b) is modelled as one push-down of a ++ b (same emissions; per-leaf marshal order preserved)',
                 'observer leaves hold field references (a mutable marshaler is reported by identity there); evaluation time is observed on '
                 'io (JSON) leaves, whose bytes are fixed when the field is marshaled',
                 'the slog branch uses plain int attributes and non-empty group names only (group / empty-attribute rules are C18)',
                 'Go slices and buffers: modelled as headers over a heap of arrays (M11); sync.Pool reuse of encoder buffers is C08'],
 'technique': 'Lean 4: induction over derivation paths (path_fields, lazy = with up to evaluation time) and a heap model of Go slices for the aliasing refinements; tie: correspondence on derivation programs with every node re-logged + translated source (Logger.clone/Named/With/WithOptions/WithLazy, the With methods of ioCore, multiCore, sampler, hooked, levelFilterCore, contextObserver, and lazyWithCore proved to be the push-down clauses / first-use-once evaluation of the model)',
 'level_text': 'path_fields holds for every derivation path over every root core of the model; the capped-append and clone-buffer refinements are proved with witnesses that the uncapped variants alias.',
 'level_note': 'path_fields is stated per snapshot of the once-cells (monotonicity proved separately); the slog branch covers int attributes and non-empty groups (group rules are C18).',
}
