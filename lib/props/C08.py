"""check configuration for C08 (loaded by lib/zvprops.py)"""

PROP = {'gen_tables': ['Pools', 'TransJsonEnc'],
 'race': True,
 'rule': 'ops: histories (quick: 168 + 36 targeted, 200 same-logger, 600 random pinned, 60 concurrent; thorough: 204 + 3000 + 10000 + 800). Each case = one observed call + a history of 1–12 operations. Observed call: (70 %) an encoder-family op '
         '(JSON or console; the generator of C01/C02/C10/C16: hostile keys, nested marshalers, dangling namespaces, reflected values, '
         'failing marshalers, error groups; a third through a core built BEFORE the history, a fifth with a sink that logs re-entrantly) '
         'or (30 %) a logger-level call (AddCaller, AddStacktrace, Development, panic/fatal hooks that return, failing sink, With fields; '
         'actions log / DPanic / Panic / Fatal-with-hook / Check dropped / Check+Write / Check+After(hook)+Write / core.Check+Write / Sugar / '
         'deep recursion / With / '
         'zap.Stack fields; fixed clock). History operations: encoder ops with heavy fault injection (kept cores re-logged later), '
         'marshalers that panic with namespaces open and a reflection buffer in use (JSON and console), entries of 1.5 KB–300 KB, '
         'logger-level actions as above on other loggers, single and double runtime.GC(). seq mode (about 90 %): goroutine pinned with '
         'LockOSThread + GOMAXPROCS(1), two GCs (all pools empty) → observe B0, history, observe B1, observe B2; every 3rd case (4th '
         'thorough) and half of the targeted ones also run the observed call as the FIRST call of a fresh harness process. conc mode: 2–4 goroutines '
         'replay the history on their own loggers while the observed call is made 10–80 times; built with -race. 168 targeted histories '
         'come first: 12 operations that each leave one kind of pooled object behind as the last object put (console / JSON entry whose '
         'field panics with namespaces open and a reflection buffer in use; reflected values; 70 KB entries; a written entry with a hook, '
         'an error output and a failing sink; dropped checked entries; a 300-frame stack capture; error arrays of both packages; a console '
         'entry with every column) × 14 observed calls (logger-level JSON / console / core-level Check with failing sink / stack fields / With / fatal, panic, '
         'DPanic-in-development and After hooks that log before reading their entry / the built-in panic hook; '
         'generated JSON and console encoder ops, plain and with a re-entrant sink). Hooks (zap.WithPanicHook / WithFatalHook / CheckedEntry.After) are recording crash-reporter hooks: before they look at the '
         '*CheckedEntry they were handed they log through an unrelated logger and (mode 2) yield so that other goroutines log, then record '
         'level, logger name, message, time, caller, stack and the fields; the record must start with what the inputs dictate '
         '(level|logger|message|#fields) and the built-in panic hook must panic with the call\'s message (C08:history-dependent:hook-entry:…). '
         'same mode: the history runs through the OBSERVED core / logger itself (same core object): field-less entries, entries with fields, '
         'the observed call itself, fields that panic with namespaces open, Check without Write, Sync, With-children (logged through or not), GCs, '
         'optionally preceded by a history on other loggers; two thirds of these cases have a context that leaves a namespace open; the '
         'observed call through that core, through a child derived BEFORE and through a child derived AFTER that history must equal the same '
         'call through an identically constructed fresh core / a child of a fresh core (…:same-logger[:child-before|:child-after]), and '
         'first-in-process. Oracle: bytes at the observed sink, what the observed hook read, bytes at the observed error output, write count, panic text and hook calls equal '
         'B0, and nothing reached a sink, error output or hook of the history. non-trivial = history length ≥ 1; distinct = distinct '
         'canonical op JSON',
 'assumptions': ['sync.Pool hands an object to one user at a time and returns either New() or an object that was Put before (the model '
                 'quantifies over every such choice and over GCs dropping any subset); Get…Put sections of different goroutines interleave '
                 'at the granularity of the model operations (EncodeEntry, sink return/Free, Clone, Check/Write, Capture/Free, scratch '
                 'buffer) — exclusive ownership between Get and Put is the sync.Pool contract, not proved',
                 'the heap machine carries buffers by identity (aliasing is expressible) and the other pooled structs by value; '
                 'runtime.Callers fills a prefix of the slice it is given and returns the count (parameter: the goroutine stack as a list)',
                 'a reflected value reaches the buffer as the text encoding/json produced followed by a newline (C01/C02 leaf assumption); '
                 'user-supplied NewReflectedEncoder, sub-encoders and sinks that retain what they are handed are outside the claim, as is a '
                 'CheckedEntry used after Write (documented misuse; the dirty flag is modelled but not claimed)',
                 'the clone-discipline table (recvMutations) classifies an encoder method as mutating syntactically (assignment to a receiver field, '
                 'non-read call on the receiver\'s buffers, receiver passed on, mutating method on the receiver); ioCore may call only EncodeEntry and '
                 'Clone on its encoder; other Core implementations holding encoders are outside the table',
                 'Gen/Pools is syntactic (go/ast, no type checker): receivers of Free/put calls are resolved through parameter, result and '
                 'field types; a shape it cannot read removes the table (gen:Pools)',
                 'the real scheduler and the real sync.Pool are sampled (pinned goroutine: deterministic LIFO reuse, except that the race '
                 'build drops a quarter of the Puts at random; concurrent mode under -race), not proved'],
 'technique': 'Lean 4: zap\'s seven object pools as a heap machine in which every Get returns New() or ANY previously Put object (arbitrary '
              'oracle), a GC drops any subset, and operations interleave with Writes in flight; invariant proof (put-invariant of every pool + '
              'buffer ownership) by induction over histories; refinement of the pure encoder model of C01/C02/C16 by the heap-level encoder for '
              'every pooled object satisfying the put-invariant (mutual induction over call trees with a frame rule); reset tables regenerated '
              'from the source (Gen/Pools) and decided; tie: Gen + differential histories (first-in-process / emptied pools / after history / '
              'concurrent, -race)',
 'level_text': 'history_independent: for every history and every behaviour of sync.Pool each observable result equals that of the pool-free run '
               '(JSON line = Enc.encodeEntry, console line = Console.consoleLine); encode_independent_of_garbage for every object satisfying '
               'PutInv; in_flight_undisturbed for any nested activity between EncodeEntry and the sink\'s return; seven leak_* witnesses show '
               'each reset statement is needed; hook_reads_own_entry: a CheckedEntry stays out of the pool until its hook returned (leak_early_put); put_is_last_use over the source; core_encoder_unchanged_by_write / same_core_first_or_later: the encoder a core holds is never changed by logging through it (leak_receiver_mutated), receiver_encoder_never_mutated over the source; field_covered / source_matches_model / free_sites are decided over today\'s source.',
 'level_note': 'sync.Pool exclusivity and the interleaving granularity are trusted; the schedule and the runtime pool are sampled, not proved.',
}
