"""check configuration for C09 (loaded by lib/zvprops.py)"""

PROP = {'gen_tables': ['SyncFacts', 'Delegates'],
 'race': True,
 'rule': 'ops: generated multi-goroutine programs (2–8 goroutines × 3–40 actions, thorough ≤ 200) over the concurrent API surface (all log front '
         'ends incl. sugar/Check/slog, With/WithLazy/Named/WithOptions/Sugar/Desugar, Level, Sync, AtomicLevel get/set/text, ReplaceGlobals/L/S, '
         'observer Len/All/TakeAll/Filter*, BufferedWriteSyncer Sync/Stop, zapslog Handle/WithAttrs/WithGroup, hand-over of derived loggers '
         'between goroutines) on worlds = base core {observer, tee(ioCore over Lock(sink), observer), tee(ioCore over BufferedWriteSyncer, '
         'observer)} × wrapper chains of {lazy, with, hooked, incr, named, caller, stack, sampler}, fresh (never used) and warm shared loggers; '
         'built with -race, watchdog 30 s with re-run alone, recover around every action; first the F8 grid (fresh WithLazy logger × 2/4/8 '
         'goroutines); non-trivial = ≥2 goroutines that log; distinct = distinct canonical op JSON',
 'assumptions': ['the Go memory model is rendered by Sync.HB (program order, Unlock→Lock, Unlock→RLock, RUnlock→Lock, Once body→Do return, '
                 'go statement→goroutine); atomics add no edges (conservative)',
                 'sync.Mutex / RWMutex / Once / sync/atomic / sync.Pool implement their documented semantics (Sync.okStep); trusted runtime',
                 'Gen/SyncFacts is extracted syntactically (go/ast, no type checker): guards are approximations of the dynamic discipline and '
                 'over-approximate towards "unguarded"; the step from "all sites of a field fit class c" to "the trace follows c" is not proved',
                 'lock order of nested wrappers is by construction order (a wrapper is created after the object it wraps); user sinks and '
                 'callbacks (ObservedLogs.Filter predicate) are outside the claim',
                 'a zero AtomicLevel must be completed (UnmarshalText) before it is shared',
                 'panic-freedom and the real scheduler are sampled by the generated programs under -race, not proved'],
 'technique': 'Lean 4: happens-before model of event traces (mutex, RWMutex, Once, go); each locking discipline class (lockset, rw-lockset, atomic-only, once-publish, immutable-after-publish, owner-only, lock-publish) proved data-race-free by induction over traces with a vector-clock invariant; ranked-lock no-deadlock theorem; every access site of the shared types (regenerated SyncFacts table, go/ast) is decided to fit a class; tie: Gen SyncFacts + generated multi-goroutine programs on the real zap under -race with watchdogs',
 'level_text': 'class_sound and no_deadlock are proved for every trace / schedule of the model; all_fields_disciplined is decided over the 252 access sites re-extracted from the current source; the link from the syntactic site table to dynamic traces, panic-freedom and the real scheduler are sampled under -race, not proved (partial).',
 'level_note': 'Partial: syntactic over-approximation of guards (no type checker); Go memory model and runtime primitives are the assumption; user sinks/callbacks are outside the claim.',
}
