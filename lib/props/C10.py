"""check configuration for C10 (loaded by lib/zvprops.py)"""

PROP = {
 'gen_tables': ['LevelText', 'TransCE', 'TransCores'],
 'rule': 'ops: (a) entries with failures injected at 25–50 % of the positions where one can occur (marshaler errors, panicking / nil Stringers and '
         'errors, unencodable reflected values, failing causes in error groups) in random field trees, contexts and configs; (b) delivery: every '
         'failing subset of ≤4 sinks in a flat tee and in one multi-syncer (exhaustive) plus random core trees (tee / wrapper / multi-sink IO cores, '
         'enabled or not) with write and sync errors; (c) zap.Stringers with nil and panicking elements; non-trivial = ≥1 injected fault / ≥1 '
         'failing and ≥2 reached sinks; distinct = distinct canonical op JSON',
 'assumptions': ['opaque stdlib leaves as in C01', 'multierr.Append keeps every error; fmt prints them all on one line',
                 'the implicit Sync that ioCore performs above Error level deliberately drops its error (upstream issue 370): only containment is checked for sync errors'],
 'technique': 'Lean 4: well-formedness of Field.AddTo under every failure branch (structural), delivery functions over core trees; tie: correspondence with fault injection at 25–50 % of positions and exhaustive failing-sink subsets + translated source (CheckedEntry.Write IS Deliver.ceWrite; ioCore.Write, multiCore.Write/Sync, hooked.Write proved equal to the model)',
 'level_text': 'Containment is proved for failures at any set of positions of any field tree; delivery to every accepting core and complete error reporting are proved for the core-tree model and compared with real tees, wrappers and multi-syncers.',
 'level_note': 'The implicit Sync above Error level deliberately drops its error (upstream issue 370): only containment is checked for sync errors.',
}
