"""check configuration for C11 (loaded by lib/zvprops.py)"""

PROP = {'gen_tables': ['TransSampler'],
 'rule': 'ops: (1) exhaustive — N,M ≤ 2 (quick) / ≤ 4 (thorough) × every sequence of 5 (7) arrivals on one key over the classes '
         '{same ns, +1 ns, last ns of the window, exactly the window end, past the end}; (2) random sequences of (level, message, timestamp, '
         'core) with N,M,tick small and huge (tick also 0 and negative), enabled-level subsets incl. out-of-range levels, With-derived cores and '
         'second roots, precomputed fnv-colliding message pairs, backwards and pre-epoch timestamps (hostile stream); (3) bucket-selection probes '
         'on the real sampler (colliding pairs, near misses, level in the key) with fnv32a computed on both sides; (4) the zap.Config path '
         '(Initial/Thereafter/Hook, 1 s tick) through Logger + harness Clock; (5) concurrent programs (2–8 goroutines × ≤3000 Checks, parent and '
         'With-derived core) inside one open window; non-trivial = the case contains both a sampled and a dropped decision (collide: two '
         'different messages); distinct = distinct canonical op JSON',
 'assumptions': ['timestamps and tick are int64 nanoseconds with t + tick inside int64 (hypothesis NoOverflow; generators keep |t|,|tick| ≤ 2^61; '
                 'the executor marks anything else out of scope)',
                 'sync/atomic operations are linearizable (the atomic-step machine of open_window_exact takes one step per atomic operation)',
                 'hash/fnv of the Go standard library is the reference FNV-1a on the Go side (oracle and generator); the Lean fnv32a is compared '
                 'with it and with the real sampler\'s bucket sharing on every collide op',
                 'first/thereafter are non-negative (the property quantifies over N, M ≥ 0; uint64(negative int) is outside it)'],
 'technique': 'Lean 4: closed form of the sampling counter (window_passed = min k N + (k-N)/M by induction over arrivals), window-boundary case analysis, key frame/collision lemmas over a UInt32 fnv32a, and an atomic-step machine whose every interleaving inside an open window is proved to hand out exactly the counter values c+1..c+k; tie: differential correspondence on (level, message, timestamp, core) sequences with an independent window oracle, exhaustive small sequences, concurrent programs under -race + translated source (fnv32a, counter.IncCheckReset, sampler.Check proved equal to the model)',
 'level_text': 'window_count/window_passed/allows_iff hold for all N, M, tick and arrival sequences of the model under NoOverflow; open_window_exact holds for every interleaving; the full new-window statement is partial (known finding F10: pre-epoch timestamps).',
 'level_note': 'int64 overflow of t+tick excluded by hypothesis; sync/atomic linearizability assumed; F10 is a known finding.',
}
