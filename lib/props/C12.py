"""check configuration for C12 (loaded by lib/zvprops.py)"""

PROP = {'gen_tables': ['BwsFacts', 'TransLocked'], 'race': True,
 'rule': 'ops: (1) seq, exhaustive — sizes 1..3 × every history of length ≤ 4 (quick) / sizes 1..3 × length ≤ 5 and sizes 5, 8 × length ≤ 4 (thorough) over {empty write, 1 byte, '
         '2 bytes, exactly the size, size+1, Sync, tick, Stop} on a reliable sink; (2) seq, random — sizes 1…4096 and the default, write lengths '
         '0 / exactly the free space / free±1 / the size / larger than the buffer, scripted failing sinks (short counts with and without error, '
         'failing WS.Sync), Stop in the middle, ticks through a harness Clock; every history is closed by Stop and Sync on both sides; '
         '(3) bufio — the same scripted sinks under a bare bufio.Writer (validates the bufio part of the model incl. the buffered branch of its '
         'loop and the sticky error); (4) conc — 1–5 writer/syncer goroutines + a ticker goroutine, then K concurrent Stops (also Stops inside '
         'phase 1), slow sinks, under -race with a goroutine-leak check and a deadlock verdict (an atomic snapshot in which every goroutine is parked; 20 s watchdog as a fallback), records self-describing so that the sink stream is '
         'parsed back; (5) crash — child process writing records through a BufferedWriteSyncer over a file, Sync acknowledgements on a pipe, '
         'SIGKILL at a random time (6 quick / 120 thorough). non-trivial = seq: ≥2 writes, ≥1 byte in the sink and ≥1 flushing op; bufio: ≥2 '
         'writes; conc: ≥2 goroutines and ≥2 records; crash: ≥1 record in the file; distinct = distinct canonical op JSON',
 'assumptions': ['sinks obey io.Writer: a Write of a non-empty slice never returns (0, nil) (the harness sink and the model normalise that outcome '
                 'to (0, err); with such a sink bufio.Writer.Write would spin)',
                 'the wrapped sink is not written to by anyone else and WS.Write / WS.Sync themselves do not call back into the syncer',
                 "Go's sync.Mutex is a mutex and channel close / receive behave as in the Go memory model (the thread machine takes one step "
                 'per synchronisation action; -race + the mutual-exclusion probe in the sink check the implementation side)',
                 'crash clause: one sink Write = one write(2) that the kernel applies atomically with respect to SIGKILL (the harness accepts a '
                 'file cut inside a record only at a 4096-byte page boundary and counts it as shape oscut)',
                 'each critical section of s.mu acts on the byte-level state as one step (the thread machine with bytes applies Bws.write / '
                 'Bws.sync / mark when the section ends): justified by mutex_excl, the extracted lock-set skeleton (waits_outside_mu) and '
                 'C09\'s lock-set table (every access to buffer, flags and sink is under s.mu) — not by a proof about Go\'s memory model'],
 'technique': 'Lean 4: executable model of bufio.Writer (from Go\'s source: loop, large-write path, short writes, sticky error) +  + translated source (BufferedWriteSyncer.Write/Sync: lock first / unlock last, the pre-flush rule) + refinement of the byte-carrying thread machine to the sequential model (conc_refines_seq)'
              'BufferedWriteSyncer over a scripted sink, invariants by induction over unbounded histories; interleaving machine of clients, flush '
              'goroutine, the mutex and the stop/done/flushed channels with an inductive invariant, progress and a termination measure; the same '
              'machine carrying the byte-level state, with a refinement invariant giving linearizability (conc_refines_seq) and the byte-level '
              'theorems for all interleavings; tie: extracted synchronisation skeleton (Gen/BwsFacts) + differential runs against the real type '
              'with a harness Clock, concurrent programs under -race, kill -9 of a writing subprocess',
 'level_text': 'Stream invariant, bounded buffering, sticky-error and short-count rules are proved for every scripted sink, size and history; '
               'whole-write alignment, the flush clauses and the crash prefix for every reliable sink; mutual exclusion, deadlock freedom, '
               'completion of every call, and for every returning Stop: loop ended and shutdown flush completed, for every number of goroutines '
               'and every interleaving of the thread machine, with machine-checked witnesses that the issue-1428 and F11 shapes of Stop violate '
               'them; and for every interleaving the byte-level state equals the sequential model run on the critical sections in mutex-acquisition '
               'order (conc_refines_seq), so stream invariant, bound, whole writes, Sync/Stop flush clauses and crash prefix hold for all schedules.',
 'level_note': 'The step from the Go code to the thread machine (one atomic byte-level effect per critical section, the pcs of the skeleton) is '
               'tied by the extracted skeleton and differential runs, not proved from a semantics of Go; schedules of the real code are sampled '
               '(-race, stress), not enumerated. Kernel write atomicity under SIGKILL is assumed. A Write after Stop stays buffered until the '
               'next Sync (F21): judged outside the statement (Stop closes the buffer; a repeated Stop is a no-op by design) and not flagged.',
}
