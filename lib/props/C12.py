"""check configuration for C12 (loaded by lib/zvprops.py)"""

PROP = {'gen_tables': [], 'race': True,
 'rule': 'TODO',
 'assumptions': []}
