"""check configuration for C13 (loaded by lib/zvprops.py)"""

PROP = {'gen_tables': ['Delegates', 'TransMultiWS', 'TransLocked', 'TransWriters'],
 'rule': 'ops: exhaustive outcome vectors ({full,short,zero}×{err,nil})^k for k≤3 (quick) / k≤4 (thorough) sinks, random vectors, all Sync error '
         'subsets for ≤5 sinks, AddSync/Lock relay grid, payload classes × 4 zap writers, concurrent Lock programs; non-trivial = ≥2 sinks with ≥2 '
         'distinct counts / ≥1 sync error / non-empty payload; distinct = distinct canonical op JSON',
 'assumptions': ['multierr.Append keeps every non-nil error in order (checked by the oracle through multierr.Errors)',
                 "Go's sync.Mutex provides mutual exclusion (lock_mutex is a theorem about the protocol model)"],
 'technique': 'Lean 4: fold invariants of the multi-syncer loop (minimum, all errors, identical bytes), mutex machine instance for Lock; tie: exhaustive outcome vectors + deterministic mutual-exclusion probe + translated source (multiWriteSyncer.Write/Sync loops, lockedWriteSyncer.Write/Sync = Lock, call, Unlock; the std-log bridge writer, TestingWriter.Write, AddSync, Lock, NewMultiWriteSyncer) + Gen/Delegates',
 'level_text': 'The count/error/delivery rules are proved for every number of sinks and every outcome vector; all vectors up to 3 (4) sinks are also executed on the real code.',
 'level_note': "Go's sync.Mutex is trusted to be a mutex; BufferedWriteSyncer over faulty sinks is covered by oracle-only ops here and modelled under C12.",
}
