"""check configuration for C14 (loaded by lib/zvprops.py)"""

PROP = {'gen_tables': ['Callers', 'TransSweeten', 'TransMessage'],
 'rule': 'ops: every argument shape over {Field, error, string, int, nil, struct} up to length 4 (quick) / 8 (thorough, 2 015 539 shapes, in '
         'batches of 2048) through With, WithLazy and a rotating *w method; random argument lists of length ≤ 12 (structured pair/field/error '
         'stream + hostile stream: empty/duplicate/reserved/non-UTF-8 keys, typed-nil errors, zero Fields, 12 kinds of other values) through '
         'With/WithLazy/every *w method/Logw at in- and out-of-range levels, cores enabling from Debug…above Fatal, development on/off, with and '
         'without logger context; templates × argument lists through every print/printf/println method against fmt computed by the oracle; '
         'non-trivial = ≥ 2 arguments of ≥ 2 kinds (sw), a batch with shapes of length ≥ 2 (swx), ≥ 1 format argument (msg); distinct = distinct '
         'canonical op JSON',
 'assumptions': ['fmt.Sprint/Sprintf/Sprintln are parameters of message_forms (three stated facts: Sprint() = "", Sprint(s) = s for one string, '
                 'Sprintln ends in a newline); the harness hands their results to the model and the oracle recomputes them',
                 'a printf-style call with an EMPTY template and arguments yields fmt.Sprint of the arguments (zap\'s documented fallback, pinned by '
                 'TestSugarTemplatedLogging: "if the user fails to pass a template, degrade to fmt.Sprint") — accepted, not flagged',
                 'diagnostics are issued through Logger.Error: they are required only where the core enables Error (DESIGN §6.1)',
                 'which arm of zap.Any a value takes is a hand-written table in the model for the 17 generated dynamic types (validated by Corr; '
                 'the oracle compares every recorded field with zap.Any(k, v) itself through Field.Equals)'],
 'technique': 'Lean 4: the Go index loop of sweetenFields proved total and equal to a structural sweep; accounting by functional induction; method routing decided over the regenerated Callers table; tie: all argument shapes up to length 5/8 executed on the real code + translated source (sweetenFields incl. its three diagnostic messages, getMessage / getMessageln and the whole of log / logln proved equal to the model)',
 'level_text': 'accounting/fields_in_order/first_error_key hold for every argument list; every exported SugaredLogger method is shown (Gen) to route through log/logln/sweetenFields.',
 'level_note': 'fmt is a parameter with three stated facts; which arm of zap.Any a value takes is a model table validated by comparing every field with zap.Any itself.',
}
