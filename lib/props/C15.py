"""check configuration for C15 (loaded by lib/zvprops.py)"""

PROP = {'gen_tables': ['Callers', 'TransCaller', 'TransCapture', 'TransStackFmt'],
 'rule': 'ops: call sites inside closures reached through 8 distinguishable //go:noinline wrapper functions (depth 0–6, plus stacks deeper than '
         'the 64-entry pooled slab: 44…130 quick, every depth ≤ 300 thorough); every Sugar/Desugar/With/WithLazy/Named/WithOptions chain up to '
         'length 3 (quick) / 5 (thorough) and random longer ones with the AddCallerSkip total split over several options (negative partial sums '
         'included); every exported Logger method, Check+Write, all 32 SugaredLogger methods, NewStdLog/NewStdLogAt/RedirectStdLog(At) through '
         'Print/Printf/Println/Output/Panic, the zapslog handler (7 slog methods, With/WithGroup-derived loggers, WithCallerSkip); matching and '
         'non-matching skips, skip beyond the stack, caller annotation off, seven AddStacktrace level sets (incl. non-monotone), cores from Debug '
         'to DPanic; the sweetenFields diagnostics under With/WithLazy/*w; TrimmedPath/FullPath on path shapes; expected frames come from '
         "runtime.Callers at a mark on the line before the call (file:line:function compared, never addresses); non-trivial = an entry was recorded "
         'and the path has ≥ 1 wrapper or derivation (site/diag/slog), ≥ 2 slashes (trim); distinct = distinct canonical op JSON',
 'assumptions': ['runtime.Callers / runtime.CallersFrames enumerate the logical frames of the goroutine, inlined calls and method-value wrappers '
                 'included/elided as documented (trusted; the theorems take the stack as a list of frames)',
                 'the depths inside the standard library are constants of the model validated only by the correspondence check: package log puts 2 '
                 'frames (Print*/Output → output) between the caller and the io.Writer, log/slog puts 2 (Info/Log/… → log) between the caller and '
                 'Handler.Handle, and slog records the pc of its caller',
                 "the slog handler's caller is the pc slog recorded (not shifted by WithCallerSkip, which only moves the start of the stack trace) — "
                 'as the property statement says',
                 'the outermost frame of a stack trace (runtime.goexit) is dropped by design; the oracle accepts traces that are a prefix of the real '
                 'chain whose remainder is runtime.* only'],
 'technique': 'Lean 4: caller-skip arithmetic over the regenerated depth table (every front end × derivation chain × wrapper depth), termination and completeness of the stack capture doubling loop; tie: Gen + generated call sites through noinline wrappers + translated source (EntryCaller.FullPath/TrimmedPath, stacktrace.Capture incl. termination of the doubling loop) + translated stack formatter (FormatFrame/FormatStack = the modelled stack text)',
 'level_text': 'caller_is_user and capture_complete hold for all chains and depths of the model; the table of call depths is re-read from the source on every run.',
 'level_note': 'runtime.Callers and inlining are trusted; the depths inside packages log and log/slog are constants validated only by correspondence (one is a known finding).',
}
