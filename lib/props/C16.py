"""check configuration for C16 (loaded by lib/zvprops.py)"""

PROP = {
 'gen_tables': ['LevelText', 'EntryMeta', 'LevelColor', 'TransConsole'],
 'rule': 'ops: random entries × encoder configs (7 keys each empty/plain/hostile/duplicate; built-in, nil and no-op sub-encoders; time layouts incl. '
         'ones needing escapes; line endings) × With-chains (≤3) × call-site fields (every field kind; nested object/array/inline/dict/namespace '
         'marshalers to depth ≤4; hostile strings: invalid UTF-8, control bytes, quotes; NaN/Inf; boundary ints; failing marshalers, panicking / nil '
         'Stringers and errors, unencodable reflected values); plus a systematic sub-encoder sweep: all 256 levels × the 4 level encoders (and nil / no-op fall-backs), ~80 boundary durations (unit boundaries of Duration.String, ±ms truncation boundaries, MinInt64/MaxInt64) × every duration encoder as fields and array elements, boundary instants × EpochNanos, 21 caller path shapes (0/1/2/many segments, empty, Windows-style) × 14 lines (0, negative, int64 extremes) × Full/Short/no-op caller encoders; non-trivial = ≥2 fields+With levels; distinct = distinct canonical op JSON',
 'assumptions': ['strconv float text, time.Format text, base64 text and encoding/json output of reflected values are opaque leaves supplied by the harness (stdlib only)',
                 'sub-encoder functions: the integer/text-exact built-ins (Lowercase/Capital/LowercaseColor/CapitalColor level, Nanos/Millis/String duration, EpochNanos time, Full/Short caller, FullName or nil name) are COMPUTED by the model from the raw entry values (Model/SubEnc.lean; the harness-observed value is ignored); the float encoders (Epoch, EpochMillis time, Seconds duration), the time.Format text of the layout encoders, nil and no-op functions remain parameters observed on a recording PrimitiveArrayEncoder',
                 'time.Duration.String (stdlib, called by StringDurationEncoder) is modelled from its Go 1.23 source (format/fmtFrac/fmtInt) and compared on every run; Level.String/CapitalString texts are the regenerated 256-row table'],
 'technique': "Lean 4: console line shape by case analysis over all presence patterns; spaced context proved to parse to the same tree as the JSON encoder's (marked-tree induction); tie: byte-level correspondence",
 'level_text': "console_shape and ctx_valid hold for every configuration and field tree of the model; bytes are compared with the real console encoder and the context with the real JSON encoder's output for the same fields.",
 'level_note': 'Column texts of the exact built-in sub-encoders (level ×4, EpochNanos, Full/Short caller, FullName) are computed by the model (console_builtin_columns, console_level_column_injective); columns of the float / layout time encoders are fmt.Fprint of what they appended (parameters).',
}
