"""check configuration for C16 (loaded by lib/zvprops.py)"""

PROP = {
 'gen_tables': ['LevelText', 'EntryMeta', 'LevelColor'],
 'rule': 'ops: random entries × encoder configs (7 keys each empty/plain/hostile/duplicate; built-in, nil and no-op sub-encoders; time layouts incl. '
         'ones needing escapes; line endings) × With-chains (≤3) × call-site fields (every field kind; nested object/array/inline/dict/namespace '
         'marshalers to depth ≤4; hostile strings: invalid UTF-8, control bytes, quotes; NaN/Inf; boundary ints; failing marshalers, panicking / nil '
         'Stringers and errors, unencodable reflected values); non-trivial = ≥2 fields+With levels; distinct = distinct canonical op JSON',
 'assumptions': ['strconv float text, time.Format text, base64 text and encoding/json output of reflected values are opaque leaves supplied by the harness (stdlib only)',
                 'sub-encoder functions are parameters: the op carries what each configured function appended, observed on a recording PrimitiveArrayEncoder'],
 'technique': "Lean 4: console line shape by case analysis over all presence patterns; spaced context proved to parse to the same tree as the JSON encoder's (marked-tree induction); tie: byte-level correspondence",
 'level_text': "console_shape and ctx_valid hold for every configuration and field tree of the model; bytes are compared with the real console encoder and the context with the real JSON encoder's output for the same fields.",
 'level_note': 'Column texts are fmt.Fprint of what the sub-encoders appended (parameters).',
}
