"""check configuration for C17 (loaded by lib/zvprops.py)"""

PROP = {'gen_tables': ['TransZio'],
 'rule': 'ops: every partition into Write calls of every stream over {\\n,a,0xff} up to length 4, of sampled longer streams (≤8 quick / ≤12 '
         'thorough, all 2^(n-1) partitions each), plus random sessions with empty writes, Syncs, level toggles and long lines; non-trivial = ≥2 '
         'writes and ≥1 newline; distinct = distinct canonical op JSON',
 'assumptions': ['bytes.Buffer and bytes.IndexByte behave as specified; the observer core records each message once'],
 'technique': 'Lean 4: induction over chunk lists / event streams (chunking invariance); tie: all partitions of all short streams + long-line sessions + translated source (zapio Write/writeLine/flush/Sync proved equal to the step model)',
 'level_text': 'chunking_invariant holds for every byte stream, every partition into Writes and every placement of Syncs; the step machine is compared with zapio.Writer on exhaustive partitions.',
 'level_note': 'bytes.Buffer / bytes.IndexByte trusted.',
}
