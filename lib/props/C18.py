"""check configuration for C18 (loaded by lib/zvprops.py)"""

PROP = {'gen_tables': ['SlogLevels', 'TransSlog'],
 'rule': 'ops: branching derivation programs (WithGroup/WithAttrs from any existing handler, records handled by parents and siblings after '
         'deriving) over attribute trees of typed values, named/inline/empty groups, the empty Attr, nil values and LogValuers (1-2 layers) '
         'resolving to each of those; exhaustive part: every derivation of <=2 (quick) / <=3 (thorough) steps over a 7-step alphabet x every '
         'attribute forest of <=3 / <=4 nodes over {leaf, empty Attr, valuer->empty Attr, nil value, named/inline group x valuer}; all slog '
         'levels -12..12 against 7 level enablers; non-trivial = a written entry with a non-empty contract tree on a derived handler; distinct '
         '= distinct canonical op JSON',
 'assumptions': ['slog.Value.Resolve strips every LogValuer layer of a value (modelled as a layer count); resolution depth limit (100) not modelled',
                 'zapcore.ObjectEncoder.OpenNamespace nests everything added afterwards (denote); checked on every case against the real JSON '
                 'encoder through a tee core',
                 'ioCore.With/Check/Write deliver context fields before entry fields (the real ioCore is in the loop; its own correctness is C05/C07)',
                 'convertSlogLevel is consumed as a regenerated table over -12..12 (levels outside are not generated)'],
 'technique': 'Lean 4 refinement proof (handler model = slog.Handler contract, by induction on the derivation sequence) tied by Corr + a dynamic level table',
 'level_text': 'handler_refines_contract is proved for every derivation sequence (branching included) and every record; the level map is decided over a table dumped from the running code.',
 'level_note': 'Resolve depth limit of 100 and levels between the sampled far-out points are not covered.',
}
