"""check configuration for C19 (loaded by lib/zvprops.py)"""

PROP = {'gen_tables': ['TransOpen'],
 'rule': 'ops: zap.Open over counting sink factories registered under fresh scheme names, with every subset of failing positions for k<=4 '
         '(quick) / k<=6 (thorough) paths plus random mixes with unregistered schemes, unparsable URLs, real files in a sandbox (fd counting), '
         'stdout; Config.Build over every error path (6 encoder cases x level present/missing x all ok/fail vectors of <=2 / <=3 output and '
         'error paths) plus random mixes; std-log redirection (RedirectStdLog / RedirectStdLogAt / NewStdLogAt) x 15 levels x random prior '
         'flags and prefixes; URL strings from a grammar (scheme case variants, user info, hosts, ports, queries, fragments, escapes, relative / '
         'absolute / opaque paths, stdout/stderr; about half valid) opened for real inside a sandbox directory; RegisterSink / RegisterEncoder '
         'sequences (case variants, malformed, non-ASCII incl. Kelvin sign, duplicates) probed through Open / Build; non-trivial = mixed '
         'ok/fail vector / non-empty sink lists / non-default prior flags or prefix / a parsable non-absolute URL / a registration sequence with '
         'both accepted and rejected names; distinct = distinct canonical op JSON',
 'assumptions': ['net/url (url.Parse, URL.Port, URL.Hostname) is a parameter: the harness hands the parsed record to the model; the oracle re-parses independently',
                 'whether the OS can open a path inside the sandbox is a parameter of the model (computed from the sandbox layout by the generator)',
                 'multierr and os.File.Close behave as documented; open file descriptors are counted through /proc/self/fd',
                 'encoder constructors and sink factories are parameters (ok / error)',
                 'url.Parse lower-cases the scheme it read (resolveSink)'],
 'technique': 'Lean 4 decision models (open / build / redirect / file-URL / scheme registry) with all-or-nothing theorems over all outcome vectors, tied by Corr',
 'level_text': 'All-or-nothing is proved for every outcome vector / Build stage / redirection input of the model; URL and scheme decisions are iff-characterised; the real functions are driven with counting sinks, fd counting and real files.',
 'level_note': 'net/url parsing is trusted (the parsed record is handed to the model); Windows paths and sinks whose Close fails are out of scope.',
}
