"""check configuration for C20 (loaded by lib/zvprops.py)"""

PROP = {'gen_tables': ['LevelText', 'TransLevel'],
 'rule': 'ops: all 256 level values through every text form; level texts (names, aliases, case variants, near-misses, hostile bytes) through '
         'UnmarshalText/AtomicLevel/ParseLevel/flag/JSON; sequences of 1–4 HTTP requests (method × content type × body/query shapes); non-trivial = '
         'non-empty text / a request sequence that changed the level; distinct = distinct canonical op JSON',
 'assumptions': ['bytes.ToLower is a parameter of the theorems (its image is passed to the model by the harness)',
                 'net/http form parsing and encoding/json decoding are re-done with the standard library only by the harness (refDecode) and handed '
                 'to the model'],
 'technique': 'Lean 4: decide over the regenerated 256-level table and the unmarshalText switch, case analysis of the HTTP handler decision; tie: Gen tables + correspondence on texts and request sequences + translated source (unmarshalText, UnmarshalText, ParseLevel, String, CapitalString, serveHTTP, decodePutRequest/URL/JSON proved to be the model functions the theorems are stated over)',
 'level_text': "Round-trip, rejection and the HTTP decision are proved over tables regenerated from today's source, parametric in bytes.ToLower; request decoding by net/http and encoding/json is replayed with the stdlib only.",
 'level_note': 'net/http form parsing and encoding/json decoding are trusted and fed to the model by the harness.',
}
