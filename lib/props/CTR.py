"""check configuration for CTR — the self-test of the Go→GoMini translator (loaded by lib/zvprops.py; not a zap property:
it is not in properties.jsonl and therefore never appears in MANIFEST.json)"""

PROP = {
 'gen_tables': ['TransProbe', 'TransJsonSep', 'TransSampler', 'TransMultiWS', 'TransZio', 'TransCaller', 'TransEscape', 'TransCE', 'TransCEAdd', 'TransCores', 'TransLogger', 'TransLocked', 'TransSweeten', 'TransCapture', 'TransJsonEnc', 'TransConsole', 'TransSlog', 'TransOpen', 'TransLevel', 'TransDerive', 'TransMessage', 'TransCtor', 'TransWriters', 'TransStackFmt', 'TransGrpc'],
 'rule': 'ops: for every translated function (the probe functions of harness/cmd/zvh/trans_probe.go and every whitelisted zap function '
         'reachable with go:linkname) 60 (quick) / 1500 (thorough) random argument/receiver-field vectors, integers drawn boundary-heavy '
         '(0, ±1, min, max, 2^31, 2^32 …), indices around the valid range so that index/slice/divide panics occur; the REAL compiled Go '
         'function and the GoMini interpretation of the term zvgen generated from the same source must agree on results, fields and panic '
         'kind; non-trivial = every case; distinct = distinct canonical op JSON',
 'assumptions': ['no property oracle: the verdict of a case is the agreement itself (a disagreement is a broken correspondence)',
                 'external intrinsics (safeAddString = Model/Esc escape, …) are supplied to the interpreter as the hand models state them'],
 'technique': 'differential test of the deep embedding: real Go vs interpreted generated term',
 'level_text': 'Validates the translator (gen/trans.go) and the GoMini semantics (Model/GoMini.lean), which the …_matches_source theorems trust.',
 'level_note': 'Sampling only; the theorems in Props/CTR.lean are about the interpreter (fuel monotonicity), not about Go.',
 'unclaimed': 'CTR is the self-test of the translator, not a property of zap',
}
