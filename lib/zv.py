#!/usr/bin/env python3
"""zv — orchestration of one property check (see DESIGN.md §1.1).

pipeline: build tools → regen Gen tables from /repo → lake build Props.Cxx (+driver) → axiom audit →
          correspondence (corpus + generated ops: real zap vs Lean model, plus independent oracle) →
          failing-input search when a tie is broken → known-findings filter → evidence.
"""
import fcntl, hashlib, json, os, re, subprocess, sys, time

VERIF = os.path.dirname(os.path.dirname(os.path.abspath(__file__)))
REPO = os.environ.get("ZV_REPO", "/repo")
WORK = os.path.join(VERIF, ".work")
BIN = os.path.join(WORK, "bin")
LEAN = os.path.join(VERIF, "lean")
ALLOWED_AXIOMS = {"propext", "Classical.choice", "Quot.sound"}

# results may nest deeply (a namespace chain of several hundred levels comes back as nested JSON)
sys.setrecursionlimit(20000)
ENV = dict(os.environ)
ENV.update(GOFLAGS="-mod=mod", GOPROXY="off", GOSUMDB="off", GOTOOLCHAIN="local",
           CARGO_NET_OFFLINE="true", PIP_NO_INDEX="1")
ENV.setdefault("GOCACHE", os.path.join(WORK, "gocache"))
ENV.setdefault("GORACE", "halt_on_error=1")   # a race report must kill zvh-race so that exec_ops sees it

TRUSTED_BASE = [
    "Lean 4.33.0 kernel; axioms allowed: propext, Classical.choice, Quot.sound (audited by #print axioms on every run)",
    "zvgen (go/ast fact extractor) and zvh dump (dynamic tables) regenerate lean/ZapVerif/Gen/* from /repo on every run",
    "zvh (Go harness driving the real zap in-process) + zvdrv (compiled Lean model) + JSON diff: the correspondence check",
    "Go runtime, standard library and the Go memory model (see DESIGN.md §3 for the per-property modelled-not-verified list)",
    "gen/trans.go (Go→GoMini translator) + Model/GoMini.lean (interpreter: the meaning given to the translated Go subset) + the shims of "
    "docs/TRANSLATOR.md, validated against real Go by `bin/check CTR`",
]


def log(*a):
    print("[zv]", *a, file=sys.stderr, flush=True)


def run(cmd, cwd=None, inp=None, timeout=None, env=None):
    p = subprocess.run(cmd, cwd=cwd, input=inp, capture_output=True, timeout=timeout, env=env or ENV)
    return p.returncode, p.stdout, p.stderr


class Lock:
    def __init__(self, name):
        os.makedirs(WORK, exist_ok=True)
        self.path = os.path.join(WORK, name)

    def __enter__(self):
        self.f = open(self.path, "w")
        fcntl.flock(self.f, fcntl.LOCK_EX)

    def __exit__(self, *a):
        fcntl.flock(self.f, fcntl.LOCK_UN)
        self.f.close()


# ---------------------------------------------------------------- build steps

def build_tools(race=False):
    """go build zvgen and zvh against the CURRENT /repo working tree. Returns (ok, message)."""
    os.makedirs(BIN, exist_ok=True)
    with Lock("build.lock"):
        # go.sum follows /repo's
        sums = set()
        for f in (os.path.join(REPO, "go.sum"), os.path.join(REPO, "exp", "go.sum")):
            if os.path.exists(f):
                sums.update(l for l in open(f).read().splitlines() if l.strip())
        extra = os.path.join(VERIF, "harness", "go.sum.extra")
        if os.path.exists(extra):
            sums.update(l for l in open(extra).read().splitlines() if l.strip())
        want = "\n".join(sorted(sums)) + "\n"
        # a private modfile so that ZV_REPO can point the `replace` at another tree (go.sum lives next to it)
        mod = open(os.path.join(VERIF, "harness", "go.mod")).read().replace("=> /repo", "=> " + REPO)
        modfile = os.path.join(WORK, "harness.mod")
        for path, txt in ((modfile, mod), (os.path.join(WORK, "harness.sum"), want)):
            if not os.path.exists(path) or open(path).read() != txt:
                open(path, "w").write(txt)
        rc, out, err = run(["go", "build", "-o", os.path.join(BIN, "zvgen"), "."], cwd=os.path.join(VERIF, "gen"))
        if rc != 0:
            return False, "zvgen build failed:\n" + err.decode()
        rc, out, err = run(["go", "build", "-modfile=" + modfile, "-tags", "verif", "-o", os.path.join(BIN, "zvh"), "./cmd/zvh"],
                           cwd=os.path.join(VERIF, "harness"))
        if rc != 0:
            return False, "zvh build failed (does /repo still compile?):\n" + err.decode()
        if race:
            rc, out, err = run(["go", "build", "-modfile=" + modfile, "-race", "-tags", "verif", "-o", os.path.join(BIN, "zvh-race"), "./cmd/zvh"],
                               cwd=os.path.join(VERIF, "harness"))
            if rc != 0:
                return False, "zvh -race build failed:\n" + err.decode()
    return True, ""


def regen():
    """Regenerate lean/ZapVerif/Gen/*.lean from /repo. Returns (ok, message, table_rows)."""
    run([os.path.join(VERIF, "bin", "mkdrv")])
    with Lock("build.lock"):
        rc, out, err = run([os.path.join(BIN, "zvgen"), "-repo", REPO, "-zvh", os.path.join(BIN, "zvh"),
                            "-out", os.path.join(LEAN, "ZapVerif", "Gen")])
    rows = {}
    for l in out.decode().splitlines():
        m = re.match(r"^table (\S+) rows=(\d+)", l)
        if m:
            rows[m.group(1)] = int(m.group(2))
    if rc != 0:
        return False, (out.decode() + err.decode()), rows
    return True, "", rows


def lake_build(targets):
    with Lock("build.lock"):
        rc, out, err = run(["lake", "build"] + targets, cwd=LEAN)
    return rc == 0, out.decode() + err.decode()


def theorems_of(prop):
    """Names of the property theorems in Props/<prop>.lean (fully qualified) and their line numbers."""
    path = os.path.join(LEAN, "ZapVerif", "Props", prop + ".lean")
    src = open(path).read()
    ns = []
    names = []
    for i, line in enumerate(src.splitlines(), 1):
        m = re.match(r"^namespace\s+(\S+)", line)
        if m:
            ns.append(m.group(1))
        m = re.match(r"^end\s+(\S+)", line)
        if m and ns and ns[-1].endswith(m.group(1)):
            ns.pop()
        m = re.match(r"^(?:private\s+|protected\s+)?theorem\s+(\S+)", line)
        if m:
            names.append((".".join(ns + [m.group(1)]) if ns else m.group(1), i))
    return names


def failing_theorems(prop, build_log):
    """Map lake error positions in Props/<prop>.lean (or its Proofs/Gen imports) to obligation names."""
    names = theorems_of(prop)
    failing = []
    for m in re.finditer(r"error: (\S+?\.lean):(\d+):\d+", build_log):
        f, line = m.group(1), int(m.group(2))
        if f.endswith("Props/%s.lean" % prop):
            prev = [n for n, l in names if l <= line]
            failing.append("thm:" + (prev[-1] if prev else prop))
        else:
            failing.append("lemma:%s:%d" % (os.path.basename(f), line))
    if not failing:
        failing.append("build:" + prop)
    seen = []
    for f in failing:
        if f not in seen:
            seen.append(f)
    return seen


GREP_BAD = re.compile(r"sorry|admit|^\s*axiom |native_decide|bv_decide|implemented_by|unsafe |maxHeartbeats 0")


def source_hygiene():
    """grep the Lean sources for forbidden constructs outside comments."""
    hits = []
    for root, _, files in os.walk(os.path.join(LEAN, "ZapVerif")):
        for fn in files:
            if not fn.endswith(".lean"):
                continue
            p = os.path.join(root, fn)
            incomment = 0
            for i, line in enumerate(open(p), 1):
                s = line
                # strip block comments (coarse but sufficient: our sources keep /- -/ balanced per line or block)
                out = ""
                j = 0
                while j < len(s):
                    if s.startswith("/-", j):
                        incomment += 1
                        j += 2
                    elif s.startswith("-/", j) and incomment:
                        incomment -= 1
                        j += 2
                    elif incomment:
                        j += 1
                    elif s.startswith("--", j):
                        break
                    else:
                        out += s[j]
                        j += 1
                if GREP_BAD.search(out):
                    hits.append("%s:%d: %s" % (os.path.relpath(p, VERIF), i, line.strip()))
    return hits


def audit(prop):
    """#print axioms for every property theorem. Returns (ok, {theorem: [axioms]}, message)."""
    names = [n for n, _ in theorems_of(prop)]
    os.makedirs(os.path.join(WORK, "audit"), exist_ok=True)
    path = os.path.join(WORK, "audit", "Audit_%s.lean" % prop)
    with open(path, "w") as f:
        f.write("import ZapVerif.Props.%s\n" % prop)
        for n in names:
            f.write("#print axioms %s\n" % n)
    rc, out, err = run(["lake", "env", "lean", path], cwd=LEAN)
    text = out.decode() + err.decode()
    res = {}
    for m in re.finditer(r"'([^']+)' depends on axioms: \[([^\]]*)\]", text, re.S):
        res[m.group(1)] = [a.strip() for a in m.group(2).replace("\n", " ").split(",") if a.strip()]
    for m in re.finditer(r"'([^']+)' does not depend on any axioms", text):
        res[m.group(1)] = []
    badax = {n: a for n, a in res.items() if not set(a) <= ALLOWED_AXIOMS}
    missing = [n for n in names if n not in res]
    okk = rc == 0 and not badax and not missing
    msg = ""
    if not okk:
        msg = "audit failed rc=%d bad=%s missing=%s\n%s" % (rc, badax, missing, text[-2000:])
    return okk, res, msg


# ---------------------------------------------------------------- correspondence

def canon(x):
    return json.dumps(x, sort_keys=True, separators=(",", ":"), ensure_ascii=False)


def gen_ops(prop, tier, seed):
    rc, out, err = run([os.path.join(BIN, "zvh"), "gen", prop, "--seed", str(seed), "--tier", tier])
    if rc != 0:
        raise RuntimeError("zvh gen failed: " + err.decode())
    return [l for l in out.decode().split("\n") if l.strip()]


def exec_ops(prop, ops, race=False, timeout=1500):
    """Run ops on the real zap. Returns list of result dicts (same order). A crash of the harness process
    is isolated by re-running the remaining ops, and the crashing op is reported as a harness crash."""
    binary = os.path.join(BIN, "zvh-race" if race else "zvh")
    results = []
    todo = list(ops)
    while todo:
        timed_out = False
        try:
            p = subprocess.run([binary, "exec", prop], input=("\n".join(todo) + "\n").encode(), capture_output=True,
                               timeout=timeout, env=ENV)
            pout, perr = p.stdout, p.stderr
        except subprocess.TimeoutExpired as te:
            timed_out = True
            pout, perr = te.stdout or b"", te.stderr or b""
        lines = [l for l in pout.decode(errors="replace").split("\n") if l.strip()]
        got = []
        for l in lines:
            try:
                got.append(json.loads(l))
            except Exception:
                break
        results.extend(got)
        if len(got) >= len(todo):
            break
        # process died on op number len(got)
        crashed = todo[len(got)]
        full = perr.decode(errors="replace")
        tail = full[-3000:]
        i = full.find("WARNING: DATA RACE")
        if i >= 0:  # a race report can be longer than the tail: keep its head (the two conflicting accesses)
            tail = full[i:i + 3000]
        sig = "process-crash"
        if timed_out:
            sig = "timeout"
            tail = "the harness did not finish this op within %ds (hang, livelock or runaway loop)\n" % timeout + tail
        if "DATA RACE" in tail:
            sig = "data-race"
        if "fatal error: all goroutines are asleep" in tail:
            sig = "deadlock"
        if sig == "process-crash" and not any(m in full for m in ("panic", "fatal error", "goroutine ", "SIG", "exit status")):
            # the process vanished without any diagnostic (killed from outside: memory pressure, a stray signal). That says
            # nothing about zap: the op is re-executed alone, and only a reproducible death is reported.
            redo = None
            for _ in range(3):
                try:
                    q = subprocess.run([binary, "exec", prop], input=(crashed + "\n").encode(), capture_output=True,
                                       timeout=timeout, env=ENV)
                except subprocess.TimeoutExpired:
                    continue
                ql = [l for l in q.stdout.decode(errors="replace").split("\n") if l.strip()]
                if q.returncode == 0 and len(ql) == 1:
                    try:
                        redo = json.loads(ql[0])
                        break
                    except Exception:
                        pass
                elif q.stderr.strip():
                    tail = q.stderr.decode(errors="replace")[-3000:]
                    break
            if redo is not None:
                log("%s: the harness process died without a diagnostic at op %d; the op alone completes normally (transient, not reported)"
                    % (prop, len(results)))
                results.append(redo)
                todo = todo[len(got) + 1:]
                continue
        results.append({"op": json.loads(crashed), "impl": {"crash": sig},
                        "oracle": {"ok": False, "sig": "%s:%s" % (prop, sig), "detail": tail},
                        "nontrivial": True, "shape": "crash"})
        todo = todo[len(got) + 1:]
    return results


def model_ops(prop, ops):
    """Run the same ops through the compiled Lean model."""
    drv = os.path.join(LEAN, ".lake", "build", "bin", "zvdrv-" + prop)
    p = subprocess.run([drv], input=("\n".join(ops) + "\n").encode(), capture_output=True, env=ENV)
    if p.returncode != 0:
        raise RuntimeError("zvdrv failed: " + p.stderr.decode()[-2000:])
    lines = [l for l in p.stdout.decode().split("\n") if l.strip()]
    return [json.loads(l) for l in lines]


def corpus_ops(prop):
    d = os.path.join(VERIF, "corpus", prop)
    ops = []
    if os.path.isdir(d):
        for fn in sorted(os.listdir(d)):
            if fn.endswith(".json"):
                j = json.load(open(os.path.join(d, fn)))
                ops.append(canon(j.get("case", j)))
            elif fn.endswith(".jsonl"):
                ops.extend(l.strip() for l in open(os.path.join(d, fn)) if l.strip())
    return ops


# ---------------------------------------------------------------- known findings

def load_known():
    p = os.path.join(VERIF, "known_findings.json")
    if not os.path.exists(p):
        return []
    return json.load(open(p))


def known_match(prop, sig, known):
    for k in known:
        if k.get("status") == "known" and k.get("property") == prop and k.get("signature") == sig:
            return k
    return None


# ---------------------------------------------------------------- shrinking

def shrink_candidates(op):
    """Generic structural shrinking of a JSON op: drop list elements, shorten hex strings."""
    out = []

    def rec(x, path):
        if isinstance(x, list):
            for i in range(len(x)):
                out.append((path, "del", i))
            for i, e in enumerate(x):
                rec(e, path + [i])
        elif isinstance(x, dict):
            for k, v in x.items():
                rec(v, path + [k])
        elif isinstance(x, str) and len(x) >= 4 and re.fullmatch(r"[0-9a-f]*", x) and len(x) % 2 == 0:
            out.append((path, "half", None))

    rec(op, [])
    res = []
    for path, kind, i in out:
        c = json.loads(json.dumps(op))
        cur = c
        for p in path[:-1]:
            cur = cur[p]
        if kind == "del":
            tgt = cur[path[-1]] if path else c
            del tgt[i]
        else:
            s = cur[path[-1]]
            cur[path[-1]] = s[: (len(s) // 4) * 2]
        res.append(c)
    return res[:200]


def shrink(prop, op, failing, race=False, rounds=6):
    """Greedy shrink: `failing(result, model)` says whether a candidate still exhibits the problem."""
    best = op
    for _ in range(rounds):
        cands = shrink_candidates(best)
        if not cands:
            break
        lines = [canon(c) for c in cands]
        try:
            res = exec_ops(prop, lines, race=race, timeout=600)
            mods = model_ops(prop, lines)
        except Exception:
            break
        nxt = None
        for c, r, m in zip(cands, res, mods):
            if failing(r, m):
                nxt = c
                break
        if nxt is None:
            break
        best = nxt
    return best


# ---------------------------------------------------------------- the check

class Check:
    def __init__(self, prop, tier, seed, race=False, extra_targets=None, gen_tables=None, assumptions=None,
                 nontrivial_rule="", post=None):
        self.prop, self.tier, self.seed, self.race = prop, tier, seed, race
        self.extra_targets = extra_targets or []
        self.gen_tables = gen_tables or []
        self.assumptions = assumptions or []
        self.rule = nontrivial_rule
        self.post = post
        self.violations = []      # (sig, replay_path, no_failing_input_found)
        self.known_hit = []
        self.t0 = time.time()

    def write_replay(self, tie, case, impl, model, oracle, sig, nofail):
        os.makedirs(os.path.join(VERIF, "replays"), exist_ok=True)
        body = {"property": self.prop, "tier": self.tier, "seed": self.seed, "tie": tie, "case": case,
                "impl": impl, "model": model, "oracle": oracle, "signature": sig,
                "no_failing_input_found": nofail}
        h = hashlib.sha256(canon(body).encode()).hexdigest()[:12]
        path = os.path.join("replays", "%s-%s.json" % (self.prop, h))
        json.dump(body, open(os.path.join(VERIF, path), "w"), indent=1, ensure_ascii=False)
        return path

    def report(self, sig, tie, case, impl, model, oracle, nofail, known):
        k = known_match(self.prop, sig, known)
        if k and not nofail:
            if sig not in self.known_hit:
                self.known_hit.append(sig)
                print("KNOWN-FINDING: property=%s %s" % (self.prop, k.get("what", sig)), flush=True)
            return
        path = self.write_replay(tie, case, impl, model, oracle, sig, nofail)
        self.violations.append((sig, path, nofail))
        print("VIOLATION property=%s replay=%s%s" % (self.prop, path, " no-failing-input-found" if nofail else ""), flush=True)

    def run(self):
        prop = self.prop
        known = load_known()
        broken = []          # names of ties that no longer check
        obligations = 0
        discharged = 0
        details = {}

        okb, msg = build_tools(race=self.race)
        if not okb:
            log(msg)
            broken.append(("corr:build", msg))
        table_rows = {}
        if okb:
            okg, msg, table_rows = regen()
            if not okg:
                log("regen failed:", msg)
                # a table that another property needs says nothing about this one: only this property's own tables count here
                # (a table this property's Lean files import without listing it breaks its `lake build`, which is reported)
                named = False
                for m in re.finditer(r"^gen:(\S+) (.*)$", msg, re.M):
                    named = True
                    if m.group(1) in self.gen_tables:
                        broken.append(("gen:" + m.group(1), m.group(2)))
                    else:
                        log("table %s could not be regenerated (not a table of %s): %s" % (m.group(1), prop, m.group(2)[:200]))
                if not named:
                    broken.append(("gen:?", msg[-1500:]))
        thms = theorems_of(prop)
        obligations = len(thms) + len(self.gen_tables)
        okl, blog = lake_build(["ZapVerif.Props." + prop] + self.extra_targets)
        okd, dlog = lake_build(["zvdrv-" + prop])
        proved = set()
        if okl:
            oka, axioms, amsg = audit(prop)
            details["axioms"] = axioms
            if oka:
                proved = set(n for n, _ in thms)
            else:
                log(amsg)
                broken.append(("audit:" + prop, amsg[-1500:]))
                proved = set(n for n in axioms if set(axioms[n]) <= ALLOWED_AXIOMS)
            hy = source_hygiene()
            if hy:
                broken.append(("audit:hygiene", "\n".join(hy)))
                proved = set()
            if self.tier == "thorough":
                # independent re-check of the compiled module (and everything it imports from this project)
                with Lock("build.lock"):
                    rc, out, err = run(["lake", "env", "leanchecker", "ZapVerif.Props." + prop], cwd=LEAN)
                details["leanchecker"] = "ok" if rc == 0 else (out.decode() + err.decode())[-1500:]
                if rc != 0:
                    broken.append(("audit:leanchecker", details["leanchecker"]))
                    proved = set()
        else:
            log(blog[-3000:])
            ft = failing_theorems(prop, blog)
            for f in ft:
                broken.append((f, blog[-1500:]))
        gen_ok = sum(1 for t in self.gen_tables if not any(b[0] == "gen:" + t for b in broken))
        discharged = len(proved) + (gen_ok if okb else 0)

        # correspondence
        cov = {"evaluations": 0, "distinct_nontrivial": 0, "traces_validated_against_impl": 0, "disagreements_checked": 0}
        shapes = {}
        samples = []
        oracle_failures = {}
        disagreements = []
        if okb:
            ops = corpus_ops(prop)
            ncorpus = len(ops)
            ops += gen_ops(prop, self.tier, self.seed)
            # a hang must become a report, not a wait: the quick tier's whole op stream runs in well under two minutes
            results = exec_ops(prop, ops, race=self.race, timeout=420 if self.tier == "quick" else 2400)
            models = None
            if okd:
                try:
                    models = model_ops(prop, [canon(r["op"]) for r in results])
                except Exception as e:
                    broken.append(("corr:driver", str(e)))
            else:
                log(dlog[-3000:])
                broken.append(("corr:driver-build", dlog[-1500:]))
            seen = set()
            for i, r in enumerate(results):
                cov["evaluations"] += 1
                h = hashlib.sha1(canon(r["op"]).encode()).hexdigest()
                if r.get("nontrivial") and h not in seen:
                    seen.add(h)
                shapes[r.get("shape", "?")] = shapes.get(r.get("shape", "?"), 0) + 1
                m = None
                if models is not None and i < len(models) and not r.get("nomodel"):
                    m = models[i]
                    cov["traces_validated_against_impl"] += 1
                    if canon(m) != canon(r["impl"]):
                        disagreements.append((r, m))
                if not r["oracle"]["ok"]:
                    oracle_failures.setdefault(r["oracle"].get("sig", "?"), []).append((r, m))
                if len(samples) < 5 and r.get("nontrivial") and (i % max(1, len(results) // 5) == 0 or len(samples) == 0):
                    samples.append({"op": r["op"], "impl": r["impl"]})
            if not samples and results:
                samples.append({"op": results[0]["op"], "impl": results[0]["impl"]})
            cov["distinct_nontrivial"] = len(seen)
            cov["corpus_cases"] = ncorpus
            cov["disagreements_checked"] = len(disagreements)

            # 1. concrete oracle failures on the implementation: violations with replay (shrunk)
            for sig, lst in sorted(oracle_failures.items()):
                if known_match(prop, sig, known):
                    self.report(sig, "oracle", lst[0][0]["op"], lst[0][0]["impl"], lst[0][1], lst[0][0]["oracle"], False, known)
                    continue
                r, m = min(lst, key=lambda rm: len(canon(rm[0]["op"])))
                small = r["op"]
                if okd:
                    small = shrink(prop, r["op"], lambda rr, mm, sig=sig: (not rr["oracle"]["ok"]) and rr["oracle"].get("sig") == sig, race=self.race)
                rr = exec_ops(prop, [canon(small)], race=self.race)[0]
                mm = None
                if okd:
                    try:
                        mm = model_ops(prop, [canon(small)])[0]
                    except Exception:
                        pass
                if rr["oracle"]["ok"]:       # shrinking lost it (flaky): keep the original
                    rr, mm, small = r, m, r["op"]
                self.report(sig, "oracle", small, rr["impl"], mm, rr["oracle"], False, known)
            # 2. disagreements whose oracle verdict is fine: the correspondence no longer checks
            pure = [(r, m) for r, m in disagreements if r["oracle"]["ok"]]
            if pure:
                r, m = min(pure, key=lambda rm: len(canon(rm[0]["op"])))
                small = shrink(prop, r["op"], lambda rr, mm: canon(rr["impl"]) != canon(mm), race=self.race)
                rr = exec_ops(prop, [canon(small)], race=self.race)[0]
                mm = model_ops(prop, [canon(small)])[0]
                if canon(rr["impl"]) == canon(mm):
                    rr, mm, small = r, m, r["op"]
                broken.append(("corr:%s" % r.get("shape", "stream").split("/")[0], "model and implementation disagree on %d cases" % len(pure)))
                details["disagreement"] = {"case": small, "impl": rr["impl"], "model": mm}

        if self.post:
            self.post(self, broken, details, cov)

        # 3. broken ties with no concrete failing input anywhere → widened search, then no-failing-input-found
        if broken and not self.violations:
            found = False
            if okb:
                wide = gen_ops(prop, "thorough", self.seed + 1000) if self.tier == "quick" else gen_ops(prop, "thorough", self.seed + 2000)
                wres = exec_ops(prop, wide, race=self.race)
                cov["search_evaluations"] = len(wres)
                fails = {}
                for r in wres:
                    if not r["oracle"]["ok"]:
                        fails.setdefault(r["oracle"].get("sig", "?"), []).append(r)
                for sig, lst in sorted(fails.items()):
                    r = min(lst, key=lambda r: len(canon(r["op"])))
                    if known_match(prop, sig, known):
                        self.report(sig, "oracle", r["op"], r["impl"], None, r["oracle"], False, known)
                        continue
                    found = True
                    self.report(sig, broken[0][0], r["op"], r["impl"], None, r["oracle"], False, known)
            if not found:
                d = details.get("disagreement", {})
                self.report("broken:" + broken[0][0], broken[0][0], d.get("case"), d.get("impl"), d.get("model"),
                            {"verdict": "no oracle failure found", "broken": [b[0] for b in broken], "detail": broken[0][1][-1500:]}, True, known)

        # evidence
        wall = time.time() - self.t0
        cov.update({
            "obligations": obligations, "discharged": discharged,
            "checker_cmd": "cd lean && lake build ZapVerif.Props.%s && lake env lean ../.work/audit/Audit_%s.lean  (#print axioms)" % (prop, prop),
            "trusted_base": TRUSTED_BASE,
            "theorems": [n for n, _ in thms],
            "axioms": details.get("axioms", {}),
            "leanchecker": details.get("leanchecker", "not run (thorough tier only)"),
            "gen_tables": {t: table_rows.get(t, 0) for t in self.gen_tables},
            "rule": self.rule,
            "samples": samples,
            "shape_histogram": dict(sorted(shapes.items(), key=lambda kv: -kv[1])[:40]),
            "broken_ties": [b[0] for b in broken],
            "known_findings_hit": self.known_hit,
        })
        ev = {"property_id": prop, "tier": self.tier, "seed": self.seed, "level": "proof", "coverage": cov,
              "assumptions": self.assumptions, "wall_s": round(wall, 2), "violations": len(self.violations)}
        os.makedirs(os.path.join(VERIF, "evidence"), exist_ok=True)
        json.dump(ev, open(os.path.join(VERIF, "evidence", prop + ".json"), "w"), indent=1, ensure_ascii=False)
        log("%s tier=%s seed=%d: obligations %d/%d, %d cases (%d distinct non-trivial), %d disagreements, %d violations, %.1fs" % (
            prop, self.tier, self.seed, discharged, obligations, cov["evaluations"], cov["distinct_nontrivial"],
            cov["disagreements_checked"], len(self.violations), wall))
        return 1 if self.violations else 0


def replay(prop, path, race=False):
    j = json.load(open(path if os.path.isabs(path) else os.path.join(VERIF, path)))
    okb, msg = build_tools(race=race)
    if not okb:
        print(msg)
        return 2
    regen()
    lake_build(["zvdrv-" + prop])
    case = j.get("case")
    if case is None:
        print("replay names a broken obligation, no concrete case:", j.get("tie"), j.get("oracle"))
        return 1
    r = exec_ops(prop, [canon(case)], race=race)[0]
    try:
        m = model_ops(prop, [canon(case)])[0]
    except Exception as e:
        m = {"driver_error": str(e)}
    print(json.dumps({"case": case, "impl": r["impl"], "model": m, "oracle": r["oracle"]}, indent=1, ensure_ascii=False))
    return 0 if r["oracle"]["ok"] and canon(m) == canon(r["impl"]) else 1
