"""Per-property configuration of the check pipeline."""

PROPS = {
    "C13": {
        "gen_tables": [],
        "rule": "ops: exhaustive outcome vectors ({full,short,zero}×{err,nil})^k for k≤3 (quick) / k≤4 (thorough) sinks, random vectors, "
                "all Sync error subsets for ≤5 sinks, AddSync/Lock relay grid, payload classes × 4 zap writers, concurrent Lock programs; "
                "non-trivial = ≥2 sinks with ≥2 distinct counts / ≥1 sync error / non-empty payload; distinct = distinct canonical op JSON",
        "assumptions": ["multierr.Append keeps every non-nil error in order (checked by the oracle through multierr.Errors)",
                        "Go's sync.Mutex provides mutual exclusion (lock_mutex is a theorem about the protocol model)"],
    },
    "C17": {
        "gen_tables": [],
        "rule": "ops: every partition into Write calls of every stream over {\\n,a,0xff} up to length 4, of sampled longer streams "
                "(≤8 quick / ≤12 thorough, all 2^(n-1) partitions each), plus random sessions with empty writes, Syncs, level toggles and "
                "long lines; non-trivial = ≥2 writes and ≥1 newline; distinct = distinct canonical op JSON",
        "assumptions": ["bytes.Buffer and bytes.IndexByte behave as specified; the observer core records each message once"],
    },
    "C20": {
        "gen_tables": ["LevelText"],
        "rule": "ops: all 256 level values through every text form; level texts (names, aliases, case variants, near-misses, hostile bytes) "
                "through UnmarshalText/AtomicLevel/ParseLevel/flag/JSON; sequences of 1–4 HTTP requests (method × content type × body/query "
                "shapes); non-trivial = non-empty text / a request sequence that changed the level; distinct = distinct canonical op JSON",
        "assumptions": ["bytes.ToLower is a parameter of the theorems (its image is passed to the model by the harness)",
                        "net/http form parsing and encoding/json decoding are re-done with the standard library only by the harness (refDecode) and handed to the model"],
    },
}
