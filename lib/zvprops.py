"""Per-property configuration of the check pipeline: one file lib/props/Cxx.py each, defining PROP = {...}.

keys: gen_tables (Gen tables whose well-formedness counts as an obligation), rule (how cases are generated and what makes one
non-trivial/distinct), assumptions, race (build the harness with -race), targets (extra lake targets), technique / level_text /
level_note (MANIFEST texts), unclaimed (reason string: property listed under not_applicable instead of claimed).
"""
import importlib.util, os

PROPS = {}
_d = os.path.join(os.path.dirname(os.path.abspath(__file__)), "props")
for _fn in sorted(os.listdir(_d)):
    if _fn.endswith(".py") and _fn[0] == "C":
        _spec = importlib.util.spec_from_file_location("zvprop_" + _fn[:-3], os.path.join(_d, _fn))
        _m = importlib.util.module_from_spec(_spec)
        _spec.loader.exec_module(_m)
        PROPS[_fn[:-3]] = _m.PROP
