namespace Zio
abbrev Bytes := List UInt8

/-- zapio.Writer.Write (level enabled), byte-wise: the loop `for len(bs) > 0 { bs = writeLine(bs) }`
    with `cur` = bytes of the chunk scanned since the last newline.  `buff` is Writer.buff. -/
def feed (buff cur : Bytes) : Bytes → List Bytes × Bytes
  | [] => ([], buff ++ cur)                                  -- no newline left: buffer the rest
  | b :: r =>
    if b = 10 then
      let msg := if buff.isEmpty then cur else buff ++ cur   -- fast path / buffered path
      let (ms, b') := feed [] [] r
      (msg :: ms, b')
    else feed buff (cur ++ [b]) r

def write (buff bs : Bytes) : List Bytes × Bytes := feed buff [] bs

/-- Sync / Close: flush(allowEmpty = false) -/
def sync (buff : Bytes) : List Bytes × Bytes := (if buff.isEmpty then [] else [buff], [])

def run (buff : Bytes) : List Bytes → List Bytes × Bytes
  | [] => ([], buff)
  | c :: cs =>
    let (m1, b1) := write buff c
    let (m2, b2) := run b1 cs
    (m1 ++ m2, b2)

/-- spec: complete lines of a stream and its unterminated tail -/
def lines (cur : Bytes) : Bytes → List Bytes × Bytes
  | [] => ([], cur)
  | b :: r => if b = 10 then let (ls, t) := lines [] r; (cur :: ls, t) else lines (cur ++ [b]) r

theorem feed_eq_lines (buff cur s : Bytes) : feed buff cur s = lines (buff ++ cur) s := by
  induction s generalizing buff cur with
  | nil => simp [feed, lines]
  | cons b r ih =>
    unfold feed lines
    by_cases hb : b = 10
    · simp only [hb, if_true]
      have := ih [] []
      simp only [List.append_nil] at this
      rw [this]
      cases buff <;> simp
    · simp only [hb, if_false]
      rw [ih]; simp

theorem lines_nl (cur r : Bytes) :
    lines cur (10 :: r) = ((cur :: (lines [] r).1), (lines [] r).2) := by
  simp [lines]

theorem lines_other (cur r : Bytes) (x : UInt8) (hx : x ≠ 10) :
    lines cur (x :: r) = lines (cur ++ [x]) r := by
  simp [lines, hx]

theorem lines_append (cur a b : Bytes) :
    lines cur (a ++ b) = ((lines cur a).1 ++ (lines (lines cur a).2 b).1, (lines (lines cur a).2 b).2) := by
  induction a generalizing cur with
  | nil => simp [lines]
  | cons x r ih =>
    simp only [List.cons_append]
    by_cases hx : x = 10
    · subst hx; rw [lines_nl, lines_nl, ih]; simp
    · rw [lines_other _ _ _ hx, lines_other _ _ _ hx, ih]

/-- however the stream is chunked, the messages are the lines of the concatenation and the
    carried buffer is its unterminated tail -/
theorem run_eq_lines (buff : Bytes) (chunks : List Bytes) :
    run buff chunks = lines buff chunks.flatten := by
  induction chunks generalizing buff with
  | nil => simp [run, lines]
  | cons c cs ih =>
    simp only [run, write, List.flatten_cons]
    rw [feed_eq_lines, lines_append, ih]
    simp

/-- Write, Close: every line once, the tail at Close, no empty message for a trailing newline -/
theorem close_after_run (chunks : List Bytes) :
    (let (ms, b) := run [] chunks; ms ++ (sync b).1) =
    (let (ls, t) := lines [] chunks.flatten; ls ++ (if t.isEmpty then [] else [t])) := by
  rw [run_eq_lines]; simp [sync]

end Zio
