namespace Sweeten

/-- what sweetenFields can distinguish about one argument -/
inductive Arg where
  | field (id : Nat)        -- a zap.Field
  | err (id : Nat)          -- an error value
  | str (s : String)        -- a string (possible key)
  | other (id : Nat)        -- anything else (incl. nil)
deriving DecidableEq, Repr

/-- what came out: typed field passed through, pair turned into Any(key,val), first bare error -/
inductive Out where
  | passed (id : Nat)
  | any (key : String) (val : Arg)
  | error (id : Nat)
deriving DecidableEq, Repr

/-- diagnostics logged at error level -/
inductive Diag where
  | multiple (id : Nat)                 -- _multipleErrMsg with that error
  | dangling (a : Arg)                  -- _oddNumberErrMsg with "ignored"
  | invalid (pos : Nat) (k v : Arg)     -- element of the _nonStringKeyErrMsg array
deriving DecidableEq, Repr

/-- the positional sweep of sugar.go:sweetenFields; `i` is the index of the head of the list -/
def sweep (i : Nat) (seen : Bool) : List Arg → List Out × List Diag
  | [] => ([], [])
  | .field f :: r => let (o, d) := sweep (i+1) seen r; (.passed f :: o, d)
  | .err e :: r =>
      if seen then let (o, d) := sweep (i+1) true r; (o, .multiple e :: d)
      else let (o, d) := sweep (i+1) true r; (.error e :: o, d)
  | [a] => ([], [.dangling a])
  | k :: v :: r =>
      let (o, d) := sweep (i+2) seen r
      match k with
      | .str s => (.any s v :: o, d)
      | _ => (o, .invalid i k v :: d)

/-- the arguments an output / diagnostic accounts for -/
def Out.args : Out → List Arg
  | .passed f => [.field f]
  | .any k v => [.str k, v]
  | .error e => [.err e]
def Diag.args : Diag → List Arg
  | .multiple e => [.err e]
  | .dangling a => [a]
  | .invalid _ k v => [k, v]

/-- number of arguments accounted for -/
def covered (r : List Out × List Diag) : Nat :=
  (r.1.map (·.args.length)).sum + (r.2.map (·.args.length)).sum

/-- nothing vanishes: every argument is consumed by exactly one output or diagnostic -/
theorem accounting (args : List Arg) (i : Nat) (seen : Bool) :
    covered (sweep i seen args) = args.length := by
  fun_induction sweep i seen args <;> simp_all [covered, Out.args, Diag.args] <;> omega

end Sweeten
