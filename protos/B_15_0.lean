namespace Stop

/-- program counters of a client goroutine executing one BufferedWriteSyncer method -/
inductive CPc where
  | idle                    -- not in a call (may start Write / Sync / Stop, or be finished)
  | wantW | inW             -- Write: waiting for mu / inside the critical section
  | wantS | inS             -- Sync (also the final Sync of Stop)
  | wantT | inT             -- Stop: first critical section
  | waitDone                -- Stop: `<-s.done`, OUTSIDE the lock (the repaired #1428 shape)
  | inTwait                 -- variant: waiting for done while still holding mu (the #1428 bug)
deriving DecidableEq, Repr

/-- the flush goroutine -/
inductive LPc where
  | none_                   -- not started (not initialised)
  | select                  -- blocked in `select { <-ticker.C ; <-stop }`
  | wantS | inS             -- its `s.Sync()`
  | finished                -- returned; `done` is closed
deriving DecidableEq, Repr

structure St where
  cl : Nat → CPc
  loop : LPc
  mu : Option (Option Nat)          -- none = free; some none = held by loop; some (some i) = client i
  initialized : Bool
  stopped : Bool
  stopClosed : Bool

def upd (f : Nat → CPc) (i : Nat) (v : CPc) : Nat → CPc := fun j => if j = i then v else f j

/-- enabled steps. `lockedWait = true` selects the buggy variant that waits for `done` under mu. -/
inductive Step (lockedWait : Bool) : St → St → Prop
  | startW (s i) : s.cl i = .idle → Step lockedWait s { s with cl := upd s.cl i .wantW }
  | startS (s i) : s.cl i = .idle → Step lockedWait s { s with cl := upd s.cl i .wantS }
  | startT (s i) : s.cl i = .idle → Step lockedWait s { s with cl := upd s.cl i .wantT }
  | acqW (s i) : s.cl i = .wantW → s.mu = none →
      Step lockedWait s { s with cl := upd s.cl i .inW, mu := some (some i) }
  | relW (s i) : s.cl i = .inW →      -- initialise on first use (starts the loop), buffer, unlock
      Step lockedWait s { s with cl := upd s.cl i .idle, mu := none, initialized := true,
                                 loop := if s.initialized then s.loop else .select }
  | acqS (s i) : s.cl i = .wantS → s.mu = none →
      Step lockedWait s { s with cl := upd s.cl i .inS, mu := some (some i) }
  | relS (s i) : s.cl i = .inS → Step lockedWait s { s with cl := upd s.cl i .idle, mu := none }
  | acqT (s i) : s.cl i = .wantT → s.mu = none →
      Step lockedWait s { s with cl := upd s.cl i .inT, mu := some (some i) }
  | relT_noop (s i) : s.cl i = .inT → (s.initialized = false ∨ s.stopped = true) →
      Step lockedWait s { s with cl := upd s.cl i .idle, mu := none }
  | relT_stop (s i) : s.cl i = .inT → s.initialized = true → s.stopped = false → lockedWait = false →
      Step lockedWait s { s with cl := upd s.cl i .waitDone, mu := none, stopped := true, stopClosed := true }
  | relT_stop_bug (s i) : s.cl i = .inT → s.initialized = true → s.stopped = false → lockedWait = true →
      Step lockedWait s { s with cl := upd s.cl i .inTwait, stopped := true, stopClosed := true }
  | doneSeen (s i) : s.cl i = .waitDone → s.loop = .finished →
      Step lockedWait s { s with cl := upd s.cl i .wantS }          -- then the final Sync
  | doneSeen_bug (s i) : s.cl i = .inTwait → s.loop = .finished →
      Step lockedWait s { s with cl := upd s.cl i .idle, mu := none }
  | tick (s) : s.loop = .select → Step lockedWait s { s with loop := .wantS }     -- a tick arrived
  | loopStop (s) : s.loop = .select → s.stopClosed = true →
      Step lockedWait s { s with loop := .finished }
  | loopAcq (s) : s.loop = .wantS → s.mu = none → Step lockedWait s { s with loop := .inS, mu := some none }
  | loopRel (s) : s.loop = .inS → Step lockedWait s { s with loop := .select, mu := none }

def init : St :=
  { cl := fun _ => .idle, loop := .none_, mu := none, initialized := false, stopped := false,
    stopClosed := false }

inductive Reach (lw : Bool) : St → Prop
  | init : Reach lw init
  | step (s s') : Reach lw s → Step lw s s' → Reach lw s'

def inCS : CPc → Bool
  | .inW | .inS | .inT | .inTwait => true
  | _ => false

/-- invariant of the repaired protocol -/
structure Inv (s : St) : Prop where
  holder_cl : ∀ i, s.mu = some (some i) ↔ inCS (s.cl i) = true
  holder_loop : s.mu = some none ↔ s.loop = .inS
  no_bugpc : ∀ i, s.cl i ≠ .inTwait
  wait_closed : ∀ i, s.cl i = .waitDone → s.stopClosed = true ∧ s.loop ≠ .none_
  loop_init : s.loop ≠ .none_ → s.initialized = true

end Stop
