namespace Small

/-! ### C03: Go integer conversions as wrap-around arithmetic on Int, closed by omega -/

def wrapS (bits : Nat) (x : Int) : Int := (x + 2^(bits-1)) % 2^bits - 2^(bits-1)   -- intN(x)
def wrapU (bits : Nat) (x : Int) : Int := x % 2^bits                               -- uintN(x)

/-- Int32: `Integer: int64(val)` … `int32(f.Integer)` -/
theorem rt_int32 (v : Int) (h : -2^31 ≤ v ∧ v < 2^31) : wrapS 32 (wrapS 64 v) = v := by
  simp only [wrapS]; omega
/-- Uint32: `Integer: int64(val)` … `uint32(f.Integer)` -/
theorem rt_uint32 (v : Int) (h : 0 ≤ v ∧ v < 2^32) : wrapU 32 (wrapS 64 v) = v := by
  simp only [wrapS, wrapU]; omega
/-- Uint64: `Integer: int64(val)` … `uint64(f.Integer)` (values above 2^63 go through a negative int64) -/
theorem rt_uint64 (v : Int) (h : 0 ≤ v ∧ v < 2^64) : wrapU 64 (wrapS 64 v) = v := by
  simp only [wrapS, wrapU]; omega
/-- Int8 … -/
theorem rt_int8 (v : Int) (h : -2^7 ≤ v ∧ v < 2^7) : wrapS 8 (wrapS 64 v) = v := by
  simp only [wrapS]; omega
/-- Float32: `int64(math.Float32bits(val))` … `Float32frombits(uint32(f.Integer))` on the bit pattern -/
theorem rt_f32bits (b : Int) (h : 0 ≤ b ∧ b < 2^32) : wrapU 32 (wrapS 64 b) = b := rt_uint32 b h
/-- a mutated constructor `Integer: int64(int16(val))` is NOT the identity on int32 — witness -/
theorem mutant_int32_breaks : ∃ v : Int, (-2^31 ≤ v ∧ v < 2^31) ∧ wrapS 32 (wrapS 64 (wrapS 16 v)) ≠ v :=
  ⟨40000, by decide, by decide⟩

/-! ### C13: multiWriteSyncer.Write count rule, today and repaired -/

/-- today's loop: `if nWritten == 0 && n != 0 { nWritten = n } else if n < nWritten { nWritten = n }` -/
def countNow : List Nat → Nat → Nat
  | [], acc => acc
  | n :: r, acc => countNow r (if acc = 0 ∧ n ≠ 0 then n else if n < acc then n else acc)
/-- repaired: first sink initialises, later ones take the minimum -/
def countFix : List Nat → Option Nat → Nat
  | [], acc => acc.getD 0
  | n :: r, none => countFix r (some n)
  | n :: r, some a => countFix r (some (min a n))

theorem countNow_bug : countNow [0, 5] 0 = 5 := by decide

theorem countFix_le (ns : List Nat) (a : Nat) : countFix ns (some a) ≤ a := by
  induction ns generalizing a with
  | nil => simp [countFix]
  | cons n r ih => simp only [countFix]; exact Nat.le_trans (ih _) (Nat.min_le_left _ _)

theorem countFix_le_all (ns : List Nat) (a : Nat) : ∀ n ∈ ns, countFix ns (some a) ≤ n := by
  induction ns generalizing a with
  | nil => simp
  | cons m r ih =>
    intro n hn
    simp only [countFix]
    rcases List.mem_cons.mp hn with rfl | h
    · exact Nat.le_trans (countFix_le r _) (Nat.min_le_right _ _)
    · exact ih _ n h

theorem countFix_mem (ns : List Nat) (a : Nat) : countFix ns (some a) = a ∨ countFix ns (some a) ∈ ns := by
  induction ns generalizing a with
  | nil => simp [countFix]
  | cons m r ih =>
    simp only [countFix]
    rcases ih (min a m) with h | h
    · rw [h]; rcases Nat.le_total a m with hle | hle
      · left; exact Nat.min_eq_left hle
      · right; simp [Nat.min_eq_right hle]
    · right; exact List.mem_cons_of_mem _ h

/-- repaired rule: the result is the smallest count any sink reported -/
theorem countFix_is_min (n : Nat) (ns : List Nat) :
    (∀ m ∈ n :: ns, countFix (n :: ns) none ≤ m) ∧ countFix (n :: ns) none ∈ n :: ns := by
  simp only [countFix]
  constructor
  · intro m hm
    rcases List.mem_cons.mp hm with rfl | h
    · exact countFix_le ns _
    · exact countFix_le_all ns _ m h
  · rcases countFix_mem ns n with h | h
    · rw [h]; simp
    · exact List.mem_cons_of_mem _ h

/-! ### C19: open() is all-or-nothing -/

/-- outcome of opening one path -/
inductive O where | ok (id : Nat) | fail
deriving DecidableEq

/-- writer.go:open — returns (result writers or none on error, ids closed) -/
def openAll (outs : List O) : Option (List Nat) × List Nat :=
  let opened := outs.filterMap (fun o => match o with | .ok i => some i | .fail => none)
  if outs.any (fun o => o == .fail) then (none, opened) else (some opened, [])

theorem open_all_or_nothing (outs : List O) :
    let opened := outs.filterMap (fun o => match o with | .ok i => some i | .fail => none)
    ((∃ o ∈ outs, o = .fail) → openAll outs = (none, opened)) ∧
    ((∀ o ∈ outs, o ≠ .fail) → openAll outs = (some opened, [])) := by
  constructor
  · rintro ⟨o, ho, rfl⟩
    have : outs.any (fun o => o == O.fail) = true := List.any_eq_true.mpr ⟨_, ho, by simp⟩
    simp [openAll, this]
  · intro h
    have : outs.any (fun o => o == O.fail) = false := by
      cases hb : outs.any (fun o => o == O.fail) with
      | false => rfl
      | true =>
        obtain ⟨o, ho, he⟩ := List.any_eq_true.mp hb
        exact absurd (by simpa using he) (h o ho)
    simp [openAll, this]

/-! ### C15: stacktrace.Capture(Full) — the doubling loop returns the whole stack -/

/-- runtime.Callers(skip, pcs): number of frames written = min(depth - skip, len pcs) -/
def callers (depth skip cap : Nat) : Nat := min (depth - skip) cap

/-- `for numFrames == len(pcs) { pcs = make(2*len) ; numFrames = Callers(...) }` with fuel -/
def captureFull (depth skip : Nat) : Nat → Nat → Nat
  | 0, cap => callers depth skip cap
  | fuel + 1, cap =>
    if callers depth skip cap = cap then captureFull depth skip fuel (2 * cap) else callers depth skip cap

theorem capture_complete (depth skip fuel cap : Nat) (hc : 0 < cap) (hf : depth - skip < cap * 2 ^ fuel) :
    captureFull depth skip fuel cap = depth - skip := by
  induction fuel generalizing cap with
  | zero => simp [captureFull, callers] at hf ⊢; omega
  | succ f ih =>
    simp only [captureFull]
    by_cases h : callers depth skip cap = cap
    · simp only [h, if_true]
      apply ih (2 * cap) (by omega)
      rw [Nat.pow_succ] at hf
      calc depth - skip < cap * (2 ^ f * 2) := hf
        _ = 2 * cap * 2 ^ f := by rw [Nat.mul_comm (2^f) 2, ← Nat.mul_assoc, Nat.mul_comm cap 2]
    · simp only [h, if_false]
      simp only [callers] at h ⊢
      omega

end Small
