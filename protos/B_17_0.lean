namespace Slices

/-- a heap of backing arrays (array id → cells) with a bump allocator -/
structure Heap where
  arr : Nat → List Nat
  next : Nat

structure Slice where
  id : Nat
  len : Nat
  cap : Nat

def view (h : Heap) (s : Slice) : List Nat := (h.arr s.id).take s.len

def setArr (h : Heap) (i : Nat) (cells : List Nat) : Heap :=
  { h with arr := fun j => if j = i then cells else h.arr j }

/-- Go `append(s, xs...)`: in place when capacity allows, otherwise a fresh array -/
def append (h : Heap) (s : Slice) (xs : List Nat) : Heap × Slice :=
  if s.len + xs.length ≤ s.cap then
    let old := h.arr s.id
    (setArr h s.id (old.take s.len ++ xs ++ old.drop (s.len + xs.length)), { s with len := s.len + xs.length })
  else
    let cells := view h s ++ xs
    ({ (setArr h h.next cells) with next := h.next + 1 }, { id := h.next, len := cells.length, cap := cells.length })

/-- `s[:len(s):len(s)]` -/
def capped (s : Slice) : Slice := { s with cap := s.len }

/-- every live slice refers to an allocated array -/
def Live (h : Heap) (t : Slice) : Prop := t.id < h.next

/-- observer.With's `append(co.context[:len:len], fields...)`: no existing view changes, whatever
    other slice headers exist (parent, siblings, descendants) -/
theorem capped_append_no_alias (h : Heap) (s t : Slice) (xs : List Nat) (ht : Live h t) :
    view (append h (capped s) xs).1 t = view h t := by
  unfold append capped
  by_cases hx : xs.length = 0
  · have : xs = [] := List.length_eq_zero_iff.mp hx
    subst this
    simp only [List.length_nil, Nat.add_zero, Nat.le_refl, if_true, List.append_nil, view, setArr]
    by_cases hi : t.id = s.id
    · simp [hi]
    · simp [hi]
  · have : ¬ (s.len + xs.length ≤ s.len) := by omega
    simp only [this, if_false, view, setArr]
    have hne : t.id ≠ h.next := by unfold Live at ht; omega
    simp [hne]

/-- and the child sees parent context followed by its own fields -/
theorem capped_append_view (h : Heap) (s : Slice) (xs : List Nat) (hx : xs ≠ []) :
    view (append h (capped s) xs).1 (append h (capped s) xs).2 = view h s ++ xs := by
  unfold append capped
  have hl : xs.length ≠ 0 := fun h0 => hx (List.length_eq_zero_iff.mp h0)
  have : ¬ (s.len + xs.length ≤ s.len) := by omega
  simp only [this, if_false, view, setArr, if_true]
  apply List.take_of_length_le
  simp

/-- without the cap, a sibling derived earlier is overwritten: the aliasing bug the cap prevents -/
theorem uncapped_aliases :
    ∃ (h : Heap) (s : Slice),
      let (h1, t) := append h s [7]        -- first child
      let (h2, _) := append h1 s [9]       -- second child from the same parent
      view h2 t ≠ view h1 t := by
  refine ⟨{ arr := fun _ => [1, 0], next := 1 }, { id := 0, len := 1, cap := 2 }, ?_⟩
  decide

end Slices
