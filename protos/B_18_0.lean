namespace Slog

/-- resolved slog attributes (LogValuers already resolved): leaf, group, or the empty Attr -/
inductive SAttr where
  | leaf (k : String)
  | group (k : String) (ms : List SAttr)
  | empty

/-- what the contract says an attribute contributes -/
inductive T where
  | leaf (k : String)
  | node (k : String) (cs : List T)

/-- zap fields as the handler produces them -/
inductive Fld where
  | kv (k : String)
  | obj (k : String) (fs : List Fld)
  | inl (fs : List Fld)
  | ns (k : String)
  | skip

mutual
/-- slog.Handler contract: empty attrs ignored; groups without (transitive) content ignored;
    empty-key groups inlined -/
def content : SAttr → List T
  | .leaf k => [.leaf k]
  | .empty => []
  | .group k ms =>
    let c := contents ms
    if c.isEmpty then [] else if k = "" then c else [.node k c]
def contents : List SAttr → List T
  | [] => []
  | a :: r => content a ++ contents r
end

mutual
/-- convertAttrToField, repaired: a group without effective content becomes Skip -/
def convert : SAttr → Fld
  | .leaf k => .kv k
  | .empty => .skip
  | .group k ms =>
    if (contents ms).isEmpty then .skip
    else if k = "" then .inl (converts ms) else .obj k (converts ms)
def converts : List SAttr → List Fld
  | [] => []
  | a :: r => convert a :: converts r
end

mutual
/-- what a field list denotes in the encoder: a namespace nests the rest of the list -/
def denote : List Fld → List T
  | [] => []
  | .kv k :: r => .leaf k :: denote r
  | .obj k fs :: r => .node k (denote fs) :: denote r
  | .inl fs :: r => denote fs ++ denote r
  | .ns k :: r => [.node k (denote r)]
  | .skip :: r => denote r
end

mutual
theorem denote_convert : ∀ a : SAttr, denote [convert a] = content a
  | .leaf k => by simp [convert, content, denote]
  | .empty => by simp [convert, content, denote]
  | .group k ms => by
    have ih := denote_converts ms
    simp only [convert, content]
    by_cases he : (contents ms).isEmpty = true
    · simp [he, denote]
    · simp only [he, if_false, Bool.false_eq_true]
      by_cases hk : k = ""
      · simp [hk, denote, ih]
      · simp [hk, denote, ih]
theorem denote_converts : ∀ as : List SAttr, denote (converts as) = contents as
  | [] => by simp [converts, contents, denote]
  | a :: r => by
    have h1 := denote_convert a
    have h2 := denote_converts r
    simp only [converts, contents]
    -- denote (f :: fs) = denote [f] ++ denote fs when f is not a namespace (convert never yields one)
    cases hc : convert a with
    | kv k => rw [hc] at h1; simp [denote] at h1 ⊢; rw [← h1, h2]; simp
    | obj k fs => rw [hc] at h1; simp [denote] at h1 ⊢; rw [← h1, h2]; simp
    | inl fs => rw [hc] at h1; simp [denote] at h1 ⊢; rw [← h1, h2]
    | skip => rw [hc] at h1; simp [denote] at h1 ⊢; rw [h1, h2]; simp
    | ns k =>
      exfalso
      cases a with
      | leaf k' => simp [convert] at hc
      | empty => simp [convert] at hc
      | group k' ms => simp only [convert] at hc; split at hc <;> (try split at hc) <;> simp at hc
end

end Slog
