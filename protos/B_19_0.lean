import Probe.Slog
namespace Slog

inductive Step where
  | withGroup (g : String)
  | withAttrs (as : List SAttr)

def nest : List String → List T → List T
  | [], ts => ts
  | g :: gs, ts => [.node g (nest gs ts)]

/-- groups are shown only when they end up with content -/
def wrap (gs : List String) (ts : List T) : List T := if ts.isEmpty then [] else nest gs ts

/-- the slog.Handler contract for a derivation sequence and a record -/
def tree : List Step → List SAttr → List T
  | [], R => contents R
  | .withAttrs as :: D, R => contents as ++ tree D R
  | .withGroup g :: D, R => if g = "" then tree D R else wrap [g] (tree D R)

/-- handler state: fields already applied to the core (namespaces stay open) and pending groups -/
structure H where
  ctx : List Fld
  pending : List String

def isSkip : Fld → Bool
  | .skip => true
  | _ => false

/-- `if !addedNamespace && len(h.groups) > 0 && f != zap.Skip() { fields = appendGroups(fields) }` -/
def ins (p : List String) : List Fld → List Fld × Bool
  | [] => ([], false)
  | f :: r =>
    if isSkip f then let (r', b) := ins p r; (f :: r', b)
    else (p.map Fld.ns ++ f :: r, true)

def addAttrs (h : H) (fs : List Fld) : H :=
  if h.pending.isEmpty then { h with ctx := h.ctx ++ fs }
  else
    let (fs', opened) := ins h.pending fs
    { ctx := h.ctx ++ fs', pending := if opened then [] else h.pending }

def step (h : H) : Step → H
  | .withGroup g => if g = "" then h else { h with pending := h.pending ++ [g] }   -- repaired F14
  | .withAttrs as => addAttrs h (converts as)

def run (h : H) : List Step → H
  | [] => h
  | s :: D => run (step h s) D

def handle (h : H) (R : List SAttr) : List T := denote (addAttrs h (converts R)).ctx

/-- denote with a hole at the end of the list -/
def plugD : List Fld → List T → List T
  | [], x => x
  | .kv k :: r, x => .leaf k :: plugD r x
  | .obj k fs :: r, x => .node k (denote fs) :: plugD r x
  | .inl fs :: r, x => denote fs ++ plugD r x
  | .ns k :: r, x => [.node k (plugD r x)]
  | .skip :: r, x => plugD r x

theorem denote_append (a b : List Fld) : denote (a ++ b) = plugD a (denote b) := by
  induction a with
  | nil => simp [plugD]
  | cons f r ih => cases f <;> simp [denote, plugD, ih]

theorem plugD_append (a b : List Fld) (x : List T) : plugD (a ++ b) x = plugD a (plugD b x) := by
  induction a with
  | nil => simp [plugD]
  | cons f r ih => cases f <;> simp [plugD, ih]

theorem plugD_ns (p : List String) (x : List T) : plugD (p.map Fld.ns) x = nest p x := by
  induction p with
  | nil => simp [plugD, nest]
  | cons g gs ih => simp [plugD, nest, ih]

def noNs : List Fld → Prop
  | [] => True
  | .ns _ :: _ => False
  | _ :: r => noNs r

theorem plugD_noNs (fs : List Fld) (x : List T) (h : noNs fs) : plugD fs x = denote fs ++ x := by
  induction fs with
  | nil => simp [plugD, denote]
  | cons f r ih => cases f <;> simp_all [plugD, denote, noNs]

theorem convert_not_ns (a : SAttr) (k : String) : convert a ≠ .ns k := by
  cases a with
  | leaf k' => simp [convert]
  | empty => simp [convert]
  | group k' ms => simp only [convert]; split <;> (try split) <;> simp

theorem converts_noNs : ∀ as : List SAttr, noNs (converts as)
  | [] => by simp [converts, noNs]
  | a :: r => by
    have := converts_noNs r
    simp only [converts]
    cases hc : convert a <;> simp_all [noNs]
    exact absurd hc (convert_not_ns a _)

theorem ins_false (p : List String) (fs : List Fld) (h : (ins p fs).2 = false) :
    (ins p fs).1 = fs ∧ denote fs = [] := by
  induction fs with
  | nil => simp [ins, denote]
  | cons f r ih =>
    unfold ins at h ⊢
    by_cases hs : isSkip f = true
    · simp only [hs, if_true] at h ⊢
      have := ih h
      cases f <;> simp_all [isSkip, denote]
    · simp [hs] at h

theorem ins_true (p : List String) (fs : List Fld) (x : List T) (hn : noNs fs)
    (h : (ins p fs).2 = true) :
    plugD (ins p fs).1 x = nest p (denote fs ++ x) := by
  induction fs with
  | nil => simp [ins] at h
  | cons f r ih =>
    unfold ins at h ⊢
    by_cases hs : isSkip f = true
    · simp only [hs, if_true] at h ⊢
      cases f <;> simp_all [isSkip, denote, plugD, noNs]
    · simp only [hs, Bool.false_eq_true, if_false]
      rw [plugD_append, plugD_ns, plugD_noNs _ _ hn]

theorem denote_eq_plugD (l : List Fld) : denote l = plugD l [] := by
  have := denote_append l []; simpa [denote] using this

theorem wrap_nil (t : List T) : wrap [] t = t := by
  unfold wrap nest; cases t <;> simp

theorem nest_append (p : List String) (g : String) (t : List T) :
    nest (p ++ [g]) t = nest p [.node g t] := by
  induction p with
  | nil => simp [nest]
  | cons a r ih => simp [nest, ih]

theorem wrap_wrap (p : List String) (g : String) (t : List T) :
    wrap p (wrap [g] t) = wrap (p ++ [g]) t := by
  cases t with
  | nil => simp [wrap]
  | cons a r => simp [wrap, nest, nest_append]

theorem wrap_nonempty (p : List String) (t : List T) (h : t ≠ []) : wrap p t = nest p t := by
  cases t with
  | nil => exact absurd rfl h
  | cons a r => simp [wrap]

theorem convert_nonskip (a : SAttr) (h : isSkip (convert a) = false) : content a ≠ [] := by
  cases a with
  | leaf k => simp [content]
  | empty => simp [convert, isSkip] at h
  | group k ms =>
    simp only [convert] at h
    simp only [content]
    by_cases he : (contents ms).isEmpty = true
    · simp [he, isSkip] at h
    · simp only [he, Bool.false_eq_true, if_false]
      by_cases hk : k = ""
      · simp only [hk, if_true]; intro h0; simp [h0] at he
      · simp [hk]

theorem ins_true_nonempty (p : List String) : ∀ as : List SAttr,
    (ins p (converts as)).2 = true → contents as ≠ []
  | [], h => by simp [converts, ins] at h
  | a :: r, h => by
    simp only [converts] at h
    unfold ins at h
    by_cases hs : isSkip (convert a) = true
    · simp only [hs, if_true] at h
      have := ins_true_nonempty p r h
      simp only [contents]; intro h0
      exact this (List.append_eq_nil_iff.mp h0).2
    · have := convert_nonskip a (by simpa using hs)
      simp only [contents]; intro h0
      exact this (List.append_eq_nil_iff.mp h0).1

/-- one WithAttrs/Handle step of the handler, in denotational terms -/
theorem addAttrs_plug (h : H) (as : List SAttr) (t : List T) :
    plugD (addAttrs h (converts as)).ctx (wrap (addAttrs h (converts as)).pending t)
      = plugD h.ctx (wrap h.pending (contents as ++ t)) := by
  have hn := converts_noNs as
  have hd := denote_converts as
  unfold addAttrs
  by_cases hp : h.pending.isEmpty = true
  · have hpe : h.pending = [] := List.isEmpty_iff.mp hp
    simp only [hpe, List.isEmpty_nil, if_true, wrap_nil]
    rw [plugD_append, plugD_noNs _ _ hn, hd]
  · simp only [hp, Bool.false_eq_true, if_false]
    cases ho : (ins h.pending (converts as)).2 with
    | false =>
      obtain ⟨h1, h2⟩ := ins_false _ _ ho
      have hc : contents as = [] := by rw [← hd]; exact h2
      simp only [ho, Bool.false_eq_true, if_false, h1]
      rw [plugD_append, plugD_noNs _ _ hn, h2, hc]; simp
    | true =>
      have hne := ins_true_nonempty _ as ho
      simp only [ho, if_true, wrap_nil]
      rw [plugD_append, ins_true _ _ _ hn ho, hd]
      rw [wrap_nonempty _ _ (by intro h0; exact hne (List.append_eq_nil_iff.mp h0).1)]

/-- C18 core: for every derivation sequence and record, what the (repaired) handler makes the
    encoder emit is exactly what the slog.Handler contract prescribes -/
theorem handler_refines_contract : ∀ (D : List Step) (h : H) (R : List SAttr),
    handle (run h D) R = plugD h.ctx (wrap h.pending (tree D R))
  | [], h, R => by
    have := addAttrs_plug h R []
    simp only [wrap, List.append_nil] at this
    simp only [handle, run, tree, denote_eq_plugD]
    simpa [wrap] using this
  | .withGroup g :: D, h, R => by
    simp only [run, step, tree]
    by_cases hg : g = ""
    · simp only [hg, if_true]; exact handler_refines_contract D h R
    · simp only [hg, if_false]
      rw [handler_refines_contract D _ R, wrap_wrap]
  | .withAttrs as :: D, h, R => by
    simp only [run, step, tree]
    rw [handler_refines_contract D _ R, addAttrs_plug]

theorem handler_refines_contract_root (D : List Step) (R : List SAttr) :
    handle (run ⟨[], []⟩ D) R = tree D R := by
  rw [handler_refines_contract]; simp [plugD, wrap_nil]

/-- today's conversion (no emptiness check): an empty group that reaches the handler unfiltered is
    emitted as `"g":{}` although the contract omits it (finding F15) -/
def convertNowEmptyGroup (k : String) : Fld := .obj k []
theorem empty_group_bug : denote [convertNowEmptyGroup "g"] ≠ content (.group "g" []) := by
  simp [convertNowEmptyGroup, denote, content, contents]

/-- today's WithGroup("") appends the empty name (finding F14): the next attribute is nested under "" -/
theorem empty_group_name_bug :
    denote (addAttrs { ctx := [], pending := [""] } (converts [.leaf "a"])).ctx ≠ tree [.withGroup "", .withAttrs [.leaf "a"]] [] := by
  simp [addAttrs, converts, convert, ins, isSkip, denote, tree, contents, content]

end Slog
