/-! scratch: streaming encoder with last-byte separator vs tree renderer -/
namespace P

abbrev Bytes := List UInt8

inductive J where
  | atom (txt : Bytes)            -- already-rendered scalar (string/number/…)
  | obj (kvs : List (Bytes × J))
  | arr (xs : List J)

mutual
inductive OC where
  | prim (k : Bytes) (txt : Bytes)
  | obj (k : Bytes) (body : List OC)
  | arr (k : Bytes) (body : List AC)
  | ns (k : Bytes)
inductive AC where
  | prim (txt : Bytes)
  | obj (body : List OC)
  | arr (body : List AC)
end

structure Enc where
  buf : Bytes
  open_ : Nat

def skip (b : UInt8) : Bool := b == 123 || b == 91 || b == 58 || b == 44 || b == 32

def sep (buf : Bytes) : Bytes :=
  match buf.getLast? with
  | none => buf
  | some b => if skip b then buf else buf ++ [44]

def addKey (buf k : Bytes) : Bytes := sep buf ++ [34] ++ k ++ [34, 58]

mutual
def runO (e : Enc) : List OC → Enc
  | [] => e
  | OC.prim k t :: r => runO { e with buf := sep (addKey e.buf k) ++ t } r
  | OC.ns k :: r => runO { buf := addKey e.buf k ++ [123], open_ := e.open_ + 1 } r
  | OC.obj k body :: r =>
      let b0 := sep (addKey e.buf k) ++ [123]
      let e1 := runO { buf := b0, open_ := 0 } body
      runO { buf := e1.buf ++ [125] ++ List.replicate e1.open_ 125, open_ := e.open_ } r
  | OC.arr k body :: r =>
      let b0 := sep (addKey e.buf k) ++ [91]
      let b1 := runA b0 body
      runO { e with buf := b1 ++ [93] } r
def runA (buf : Bytes) : List AC → Bytes
  | [] => buf
  | AC.prim t :: r => runA (sep buf ++ t) r
  | AC.obj body :: r =>
      let e1 := runO { buf := sep buf ++ [123], open_ := 0 } body
      runA (e1.buf ++ [125] ++ List.replicate e1.open_ 125) r
  | AC.arr body :: r => runA (runA (sep buf ++ [91]) body ++ [93]) r
end

end P
