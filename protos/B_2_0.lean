import Probe.Basic
namespace P

def okTxt (t : Bytes) : Prop := (t.getLast?.map skip) = some false

mutual
def okO : List OC → Prop
  | [] => True
  | OC.prim _ t :: r => okTxt t ∧ okO r
  | OC.ns _ :: r => okO r
  | OC.obj _ b :: r => okO b ∧ okO r
  | OC.arr _ b :: r => okA b ∧ okO r
def okA : List AC → Prop
  | [] => True
  | AC.prim t :: r => okTxt t ∧ okA r
  | AC.obj b :: r => okO b ∧ okA r
  | AC.arr b :: r => okA b ∧ okA r
end

def comma (first : Bool) : Bytes := if first then [] else [44]

mutual
def outO (first : Bool) : List OC → Bytes × Nat
  | [] => ([], 0)
  | OC.prim k t :: r =>
      let (b, n) := outO false r
      (comma first ++ [34] ++ k ++ [34, 58] ++ t ++ b, n)
  | OC.ns k :: r =>
      let (b, n) := outO true r
      (comma first ++ [34] ++ k ++ [34, 58, 123] ++ b, n + 1)
  | OC.obj k body :: r =>
      let (bb, nb) := outO true body
      let (b, n) := outO false r
      (comma first ++ [34] ++ k ++ [34, 58, 123] ++ bb ++ [125] ++ List.replicate nb 125 ++ b, n)
  | OC.arr k body :: r =>
      let (b, n) := outO false r
      (comma first ++ [34] ++ k ++ [34, 58, 91] ++ outA true body ++ [93] ++ b, n)
def outA (first : Bool) : List AC → Bytes
  | [] => []
  | AC.prim t :: r => comma first ++ t ++ outA false r
  | AC.obj body :: r =>
      let (bb, nb) := outO true body
      comma first ++ [123] ++ bb ++ [125] ++ List.replicate nb 125 ++ outA false r
  | AC.arr body :: r => comma first ++ [91] ++ outA true body ++ [93] ++ outA false r
end

def stateOf (buf : Bytes) (first : Bool) : Prop := (buf.getLast?.map skip) = some first

theorem sep_of_state {buf : Bytes} {first : Bool} (h : stateOf buf first) :
    sep buf = buf ++ comma first := by
  unfold stateOf at h
  unfold sep comma
  cases hl : buf.getLast? with
  | none => simp [hl] at h
  | some c => cases first <;> simp_all

theorem state_app (buf t : Bytes) (first : Bool) (h : stateOf t first) : stateOf (buf ++ t) first := by
  unfold stateOf at *
  rw [List.getLast?_append]
  cases ht : t.getLast? with
  | none => simp [ht] at h
  | some c => simpa [ht] using h

theorem state_snoc (t : Bytes) (c : UInt8) : stateOf (t ++ [c]) (skip c) := by
  simp [stateOf]

theorem state_close (t : Bytes) (n : Nat) : stateOf (t ++ 125 :: List.replicate n 125) false := by
  apply state_app
  cases n with
  | zero => simp [stateOf]; decide
  | succ m =>
    have : (125 :: List.replicate (m+1) 125 : Bytes) = List.replicate (m+2) 125 := by simp [List.replicate_succ]
    rw [this]; simp [stateOf, List.getLast?_replicate]; decide

theorem state_close' (n : Nat) : stateOf (125 :: List.replicate n 125) false := by
  simpa using state_close [] n

theorem state_cons (c : UInt8) (t : Bytes) (b : Bool) (h : stateOf t b) : stateOf (c :: t) b := by
  simpa using state_app [c] t b h

macro "state_tac" : tactic =>
  `(tactic| repeat (first | exact state_close' _ | apply state_app | apply state_cons))

end P
