import Probe.Thm
namespace P

theorem addKey_of_state {buf k : Bytes} {first : Bool} (h : stateOf buf first) :
    addKey buf k = buf ++ (comma first ++ 34 :: (k ++ [34, 58])) := by
  unfold addKey; rw [sep_of_state h]; simp

theorem st (pre t : Bytes) (c : UInt8) (b : Bool) (h : skip c = b) : stateOf (pre ++ (t ++ [c])) b := by
  rw [← List.append_assoc]; exact h ▸ state_snoc _ c

mutual
theorem runO_eq : ∀ (calls : List OC) (buf : Bytes) (n : Nat) (first : Bool),
    stateOf buf first → okO calls →
    runO ⟨buf, n⟩ calls = ⟨buf ++ (outO first calls).1, n + (outO first calls).2⟩
  | [], buf, n, first, _, _ => by simp [runO, outO]
  | OC.prim k t :: r, buf, n, first, hs, hok => by
      obtain ⟨ht, hr⟩ := (by simpa [okO] using hok : okTxt t ∧ okO r)
      have hk := addKey_of_state (k := k) hs
      have hs2 : stateOf (buf ++ (comma first ++ 34 :: (k ++ [34, 58]))) true := by
        have := st buf (comma first ++ 34 :: (k ++ [34])) 58 true (by decide); simpa using this
      have hs3 : stateOf (buf ++ (comma first ++ 34 :: (k ++ [34, 58])) ++ comma true ++ t) false :=
        state_app _ t false ht
      simp only [runO, outO, hk, sep_of_state hs2]
      rw [runO_eq r _ n false hs3 hr]
      simp [comma, List.append_assoc]
  | OC.ns k :: r, buf, n, first, hs, hok => by
      have hr : okO r := by simpa [okO] using hok
      have hk := addKey_of_state (k := k) hs
      have hs3 : stateOf (buf ++ (comma first ++ 34 :: (k ++ [34, 58])) ++ [123]) true :=
        state_snoc _ 123
      simp only [runO, outO, hk]
      rw [runO_eq r _ (n+1) true hs3 hr]
      simp [List.append_assoc]; omega
  | OC.obj k body :: r, buf, n, first, hs, hok => by
      obtain ⟨hb, hr⟩ := (by simpa [okO] using hok : okO body ∧ okO r)
      have hk := addKey_of_state (k := k) hs
      have hs2 : stateOf (buf ++ (comma first ++ 34 :: (k ++ [34, 58]))) true := by
        have := st buf (comma first ++ 34 :: (k ++ [34])) 58 true (by decide); simpa using this
      have hs3 : stateOf (buf ++ (comma first ++ 34 :: (k ++ [34, 58])) ++ comma true ++ [123]) true :=
        state_snoc _ 123
      simp only [runO, outO, hk, sep_of_state hs2]
      rw [runO_eq body _ 0 true hs3 hb]
      simp only []
      rw [runO_eq r _ n false (by simp only [List.append_assoc]; state_tac) hr]
      simp [comma, List.append_assoc]
  | OC.arr k body :: r, buf, n, first, hs, hok => by
      obtain ⟨hb, hr⟩ := (by simpa [okO] using hok : okA body ∧ okO r)
      have hk := addKey_of_state (k := k) hs
      have hs2 : stateOf (buf ++ (comma first ++ 34 :: (k ++ [34, 58]))) true := by
        have := st buf (comma first ++ 34 :: (k ++ [34])) 58 true (by decide); simpa using this
      have hs3 : stateOf (buf ++ (comma first ++ 34 :: (k ++ [34, 58])) ++ comma true ++ [91]) true :=
        state_snoc _ 91
      simp only [runO, outO, hk, sep_of_state hs2]
      rw [runA_eq body _ true hs3 hb]
      rw [runO_eq r _ n false (state_snoc _ 93) hr]
      simp [comma, List.append_assoc]
theorem runA_eq : ∀ (calls : List AC) (buf : Bytes) (first : Bool),
    stateOf buf first → okA calls →
    runA buf calls = buf ++ outA first calls
  | [], buf, first, _, _ => by simp [runA, outA]
  | AC.prim t :: r, buf, first, hs, hok => by
      obtain ⟨ht, hr⟩ := (by simpa [okA] using hok : okTxt t ∧ okA r)
      simp only [runA, outA, sep_of_state hs]
      rw [runA_eq r _ false (state_app _ t false ht) hr]
      simp [List.append_assoc]
  | AC.obj body :: r, buf, first, hs, hok => by
      obtain ⟨hb, hr⟩ := (by simpa [okA] using hok : okO body ∧ okA r)
      simp only [runA, outA, sep_of_state hs]
      rw [runO_eq body _ 0 true (state_snoc _ 123) hb]
      simp only []
      rw [runA_eq r _ false (by simp only [List.append_assoc]; state_tac) hr]
      simp [List.append_assoc]
  | AC.arr body :: r, buf, first, hs, hok => by
      obtain ⟨hb, hr⟩ := (by simpa [okA] using hok : okA body ∧ okA r)
      simp only [runA, outA, sep_of_state hs]
      rw [runA_eq body _ true (state_snoc _ 91) hb]
      rw [runA_eq r _ false (state_snoc _ 93) hr]
      simp [List.append_assoc]
end

end P
