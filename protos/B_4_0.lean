namespace Drf
abbrev Tid := Nat
abbrev Lock := Nat
abbrev Var := Nat

inductive Ev where
  | acq (t : Tid) (m : Lock)
  | rel (t : Tid) (m : Lock)
  | rd (t : Tid) (x : Var)
  | wr (t : Tid) (x : Var)
deriving DecidableEq, Repr

def Ev.tid : Ev → Tid
  | .acq t _ | .rel t _ | .rd t _ | .wr t _ => t

def Ev.accesses (e : Ev) (x : Var) : Bool :=
  match e with
  | .rd _ y | .wr _ y => x == y
  | _ => false

def Ev.isWrite : Ev → Bool
  | .wr _ _ => true
  | _ => false

/-- holder of lock m after executing the events of `tr` (in order) -/
def holder (m : Lock) : List Ev → Option Tid
  | [] => none
  | e :: tr =>   -- tr is the EARLIER part: we store traces newest-first
    match e with
    | .acq t m' => if m' = m then some t else holder m tr
    | .rel _ m' => if m' = m then none else holder m tr
    | _ => holder m tr

/-- well-formed lock usage, traces newest-first -/
def WF : List Ev → Prop
  | [] => True
  | e :: tr => WF tr ∧
    match e with
    | .acq _ m => holder m tr = none
    | .rel t m => holder m tr = some t
    | _ => True

/-- every access to x happens while its thread holds m (newest-first trace) -/
def Guarded (x : Var) (m : Lock) : List Ev → Prop
  | [] => True
  | e :: tr => Guarded x m tr ∧ (e.accesses x = true → holder m tr = some e.tid)

/-- happens-before from an earlier event to "now" for thread `t`, over a newest-first
    trace: `HBnow tr k t` means the event at position k (counted from the oldest = index 0)
    happens-before the next event of thread t.  Defined via: program order, or a release
    that is HB-after k followed by an acquire by a thread …  We use the standard
    characterisation through a "knowledge set": K t = set of event indices known to t. -/
def know : List Ev → Tid → Nat → Bool
  -- know tr t k : event index k (0 = oldest) happens-before thread t's next step
  | [], _, _ => false
  | e :: tr, t, k =>
    let idx := tr.length
    -- own events and everything they knew
    if e.tid = t then
      (k == idx) || know tr t k ||
        (match e with
         | .acq _ m => relKnow m tr k
         | _ => false)
    else know tr t k
where
  /-- what the last release of m (if any, anywhere earlier) knew, including itself -/
  relKnow (m : Lock) : List Ev → Nat → Bool
    | [], _ => false
    | e :: tr, k =>
      match e with
      | .rel t' m' => if m' = m then (k == tr.length) || know tr t' k || relKnow m tr k
                      else relKnow m tr k
      | _ => relKnow m tr k

end Drf
