import Probe.Drf
namespace Drf

/-- event with index k (0 = oldest) of a newest-first trace -/
def evAt : List Ev → Nat → Option Ev
  | [], _ => none
  | e :: tr, k => if k = tr.length then some e else evAt tr k

theorem evAt_lt {tr : List Ev} {k : Nat} {e : Ev} (h : evAt tr k = some e) : k < tr.length := by
  induction tr with
  | nil => simp [evAt] at h
  | cons a tr ih =>
    unfold evAt at h
    split at h
    · simp; omega
    · have := ih h; simp; omega

theorem know_mono (e : Ev) (tr : List Ev) (t : Tid) (k : Nat) (h : know tr t k = true) :
    know (e :: tr) t k = true := by
  unfold know
  by_cases ht : e.tid = t <;> simp [ht, h]

theorem relKnow_other (e : Ev) (tr : List Ev) (m : Lock) (k : Nat)
    (he : ∀ t, e ≠ .rel t m) : know.relKnow m (e :: tr) k = know.relKnow m tr k := by
  cases e with
  | rel t' m' =>
    by_cases hm : m' = m
    · subst hm; exact absurd rfl (he t')
    · simp [know.relKnow, hm]
  | acq _ _ => simp [know.relKnow]
  | rd _ _ => simp [know.relKnow]
  | wr _ _ => simp [know.relKnow]

/-- the invariant: the holder of m knows every earlier access to x; when m is free, the
    release history of m knows every earlier access to x -/
def Inv (x : Var) (m : Lock) (tr : List Ev) : Prop :=
  ∀ k e, evAt tr k = some e → e.accesses x = true →
    match holder m tr with
    | some t => know tr t k = true
    | none => know.relKnow m tr k = true

theorem inv_step (x : Var) (m : Lock) (e : Ev) (tr : List Ev)
    (hwf : WF (e :: tr)) (hg : Guarded x m (e :: tr)) (ih : Inv x m tr) : Inv x m (e :: tr) := by
  obtain ⟨_, hwe⟩ := hwf
  obtain ⟨_, hge⟩ := hg
  intro k e' hk hacc
  unfold evAt at hk
  by_cases hkl : k = tr.length
  · -- the new event itself accesses x: it is guarded, holder unchanged and is its own thread
    simp [hkl] at hk; subst hk
    have hh := hge hacc
    cases e with
    | acq _ _ => simp [Ev.accesses] at hacc
    | rel _ _ => simp [Ev.accesses] at hacc
    | rd t y => simp [holder, hh, Ev.tid, know, hkl]
    | wr t y => simp [holder, hh, Ev.tid, know, hkl]
  · simp [hkl] at hk
    have ihk := ih k e' hk hacc
    cases e with
    | acq t m' =>
      by_cases hm : m' = m
      · subst hm
        simp at hwe
        simp [hwe] at ihk
        simp [holder, know, Ev.tid, ihk]
      · simp [holder, hm]
        cases hh : holder m tr with
        | none =>
          simp [hh] at ihk ⊢
          rw [relKnow_other _ _ _ _ (by intro t h; cases h)]; exact ihk
        | some t0 => simp [hh] at ihk ⊢; exact know_mono _ _ _ _ ihk
    | rel t m' =>
      by_cases hm : m' = m
      · subst hm
        simp at hwe
        simp [hwe] at ihk
        simp [holder, know.relKnow, ihk]
      · simp [holder, hm]
        cases hh : holder m tr with
        | none =>
          simp [hh] at ihk ⊢
          rw [relKnow_other _ _ _ _ (by intro t h; cases h; exact hm rfl)]; exact ihk
        | some t0 => simp [hh] at ihk ⊢; exact know_mono _ _ _ _ ihk
    | rd t y =>
      simp [holder]
      cases hh : holder m tr with
      | none =>
        simp [hh] at ihk ⊢
        rw [relKnow_other _ _ _ _ (by intro t h; cases h)]; exact ihk
      | some t0 => simp [hh] at ihk ⊢; exact know_mono _ _ _ _ ihk
    | wr t y =>
      simp [holder]
      cases hh : holder m tr with
      | none =>
        simp [hh] at ihk ⊢
        rw [relKnow_other _ _ _ _ (by intro t h; cases h)]; exact ihk
      | some t0 => simp [hh] at ihk ⊢; exact know_mono _ _ _ _ ihk

theorem inv_all (x : Var) (m : Lock) : ∀ tr, WF tr → Guarded x m tr → Inv x m tr
  | [], _, _ => by intro k e h; simp [evAt] at h
  | e :: tr, hwf, hg => inv_step x m e tr hwf hg (inv_all x m tr hwf.1 hg.1)

/-- lockset discipline ⇒ every access to x is ordered after every earlier access to x -/
theorem lockset_ordered (x : Var) (m : Lock) (e : Ev) (tr : List Ev)
    (hwf : WF (e :: tr)) (hg : Guarded x m (e :: tr)) (hacc : e.accesses x = true) :
    ∀ k e', evAt tr k = some e' → e'.accesses x = true → know tr e.tid k = true := by
  intro k e' hk hacc'
  have hinv := inv_all x m tr hwf.1 hg.1 k e' hk hacc'
  have hh := hg.2 hacc
  simpa [hh] using hinv

end Drf
