import Mathlib.Algebra.Order.Group.Nat
namespace Samp

structure Cell where
  resetAt : Int := 0
  n : Nat := 0

/-- counter.IncCheckReset, sequential semantics -/
def inc (c : Cell) (t tick : Int) : Cell × Nat :=
  if c.resetAt > t then ({ c with n := c.n + 1 }, c.n + 1)
  else ({ resetAt := t + tick, n := 1 }, 1)

/-- the admission predicate of sampler.Check -/
def admit (N M n : Nat) : Bool := !(decide (n > N) && (M == 0 || (n - N) % M != 0))

/-- number admitted among positions 1..k of one window -/
def admitted (N M : Nat) : Nat → Nat
  | 0 => 0
  | k + 1 => admitted N M k + (if admit N M (k + 1) then 1 else 0)

theorem admit_le {N M n : Nat} (h : n ≤ N) : admit N M n = true := by
  simp [admit]; omega

theorem admitted_le (N M k : Nat) (h : k ≤ N) : admitted N M k = k := by
  induction k with
  | zero => rfl
  | succ k ih => simp [admitted, ih (by omega), admit_le h]

/-- closed form: first N, then every M-th -/
theorem admitted_closed (N M d : Nat) :
    admitted N M (N + d) = N + (if M = 0 then 0 else d / M) := by
  induction d with
  | zero => simp [admitted_le]
  | succ d ih =>
    have : N + (d + 1) = (N + d) + 1 := by omega
    rw [this, admitted, ih]
    by_cases hM : M = 0
    · subst hM; simp [admit]; omega
    · simp only [hM, if_false]
      have h1 : N + d + 1 > N := by omega
      have h2 : N + d + 1 - N = d + 1 := by omega
      rw [Nat.succ_div]
      simp only [admit, h1, h2, decide_true, Bool.true_and]
      by_cases hd : M ∣ d + 1
      · have : (d + 1) % M = 0 := Nat.mod_eq_zero_of_dvd hd
        simp [hM, hd, this]; omega
      · have : (d + 1) % M ≠ 0 := fun h => hd (Nat.dvd_of_mod_eq_zero h)
        simp [hM, hd, this]

/-- inside an open window every call just increments -/
theorem inc_open (c : Cell) (t tick : Int) (h : c.resetAt > t) :
    inc c t tick = ({ c with n := c.n + 1 }, c.n + 1) := by simp [inc, h]

/-- an entry at or after the window end opens a new window ending tick later -/
theorem inc_new (c : Cell) (t tick : Int) (h : c.resetAt ≤ t) :
    inc c t tick = ({ resetAt := t + tick, n := 1 }, 1) := by
  simp [inc]; omega

end Samp
