namespace Bws
abbrev Bytes := List UInt8

/-- reliable sink: records every Write call as one element -/
structure St where
  size : Nat
  buf : Bytes            -- bufio.Writer buffered bytes (b.buf[:b.n])
  sink : List Bytes      -- Write calls received by WS, oldest first

def St.avail (s : St) : Nat := s.size - s.buf.length

/-- bufio.Writer.Flush with a reliable sink -/
def flush (s : St) : St :=
  if s.buf.isEmpty then s else { s with buf := [], sink := s.sink ++ [s.buf] }

/-- bufio.Writer.Write with a reliable sink (the `for len(p) > Available` loop, fuelled) -/
def bwrite : Nat → St → Bytes → St
  | 0, s, _ => s
  | fuel + 1, s, p =>
    if p.length > s.avail then
      if s.buf.isEmpty then
        -- large write, empty buffer: written directly, loop ends (p becomes empty)
        { s with sink := s.sink ++ [p] }
      else
        let n := s.avail
        let s' := flush { s with buf := s.buf ++ p.take n }
        bwrite fuel s' (p.drop n)
    else { s with buf := s.buf ++ p }

/-- BufferedWriteSyncer.Write (initialised, reliable sink) -/
def write (s : St) (bs : Bytes) : St :=
  let s1 := if bs.length > s.avail ∧ s.buf.length > 0 then flush s else s
  bwrite (bs.length + 1) s1 bs

def sync (s : St) : St := flush s

def stream (s : St) : Bytes := s.sink.flatten ++ s.buf

/-- after zap's pre-flush the bufio loop never splits: one of two simple cases -/
theorem write_cases (s : St) (bs : Bytes) (hb : s.buf.length ≤ s.size) :
    write s bs =
      (if bs.length ≤ s.avail then { s with buf := s.buf ++ bs }
       else if bs.length ≤ s.size then { (flush s) with buf := bs }
       else { (flush s) with sink := (flush s).sink ++ [bs] }) := by
  unfold write
  by_cases h1 : bs.length ≤ s.avail
  · have : ¬ (bs.length > s.avail ∧ s.buf.length > 0) := by omega
    simp [this, h1, bwrite]; omega
  · simp only [h1, if_false]
    by_cases he : s.buf.length = 0
    · have hnil : s.buf = [] := List.length_eq_zero_iff.mp he
      have hav : s.avail = s.size := by simp [St.avail, he]
      have : ¬ (bs.length > s.avail ∧ s.buf.length > 0) := by omega
      have hf : flush s = s := by simp [flush, hnil]
      simp only [this, if_false, hf]
      by_cases h2 : bs.length ≤ s.size
      · omega
      · simp [h2, bwrite, hnil]; omega
    · have hc : bs.length > s.avail ∧ s.buf.length > 0 := by omega
      have hne : s.buf.isEmpty = false := by
        cases hb' : s.buf with
        | nil => simp [hb'] at he
        | cons _ _ => rfl
      have hf : flush s = { s with buf := [], sink := s.sink ++ [s.buf] } := by simp [flush, hne]
      simp only [hc, and_self, if_true]
      rw [hf]
      by_cases h2 : bs.length ≤ s.size
      · simp [h2, bwrite, St.avail]
      · simp [h2, bwrite, St.avail]

/-- every byte once, in order -/
theorem write_stream (s : St) (bs : Bytes) (hb : s.buf.length ≤ s.size) :
    stream (write s bs) = stream s ++ bs := by
  rw [write_cases s bs hb]
  unfold stream flush
  split
  · simp
  · split <;> (cases h : s.buf.isEmpty <;> simp_all)

theorem sync_stream (s : St) : stream (sync s) = stream s := by
  unfold sync stream flush; cases h : s.buf.isEmpty <;> simp_all

theorem sync_empty (s : St) : (sync s).buf = [] := by
  unfold sync flush; cases h : s.buf.isEmpty <;> simp_all

/-- never more than `size` held back -/
theorem write_bound (s : St) (bs : Bytes) (hb : s.buf.length ≤ s.size) :
    (write s bs).buf.length ≤ (write s bs).size := by
  rw [write_cases s bs hb]
  unfold flush St.avail at *
  split
  · simp; omega
  · split <;> (cases h : s.buf.isEmpty <;> simp_all <;> omega)

end Bws
