namespace Cores
abbrev Level := Int

inductive Item where
  | leaf (id : Nat)
  | hook (id : Nat)
deriving DecidableEq, Repr

inductive Core where
  | leaf (id : Nat) (enab : Level → Bool)      -- ioCore / observer
  | nop
  | tee (cs : List Core)
  | incr (c : Core) (enab : Level → Bool)      -- levelFilterCore (validation is a separate predicate)
  | hooked (c : Core) (h : Nat)

mutual
def enabled : Core → Level → Bool
  | .leaf _ en, l => en l
  | .nop, _ => false
  | .tee cs, l => enabledAny cs l
  | .incr _ en, l => en l
  | .hooked c _, l => enabled c l
def enabledAny : List Core → Level → Bool
  | [], _ => false
  | c :: cs, l => enabled c l || enabledAny cs l
end

mutual
/-- Core.Check; the CheckedEntry's core list is the accumulator (nil ≙ []).
    `fixed = false` is hooked.Check as it is today, `true` the repaired version. -/
def check (fixed : Bool) : Core → Level → List Item → List Item
  | .leaf i en, l, ce => if en l then ce ++ [.leaf i] else ce
  | .nop, _, ce => ce
  | .tee cs, l, ce => checkAll fixed cs l ce
  | .incr c en, l, ce => if en l then check fixed c l ce else ce
  | .hooked c h, l, ce =>
      let d := check fixed c l ce
      if fixed then (if d.length > ce.length then d ++ [.hook h] else d)
      else (if d ≠ [] then d ++ [.hook h] else ce)
def checkAll (fixed : Bool) : List Core → Level → List Item → List Item
  | [], _, ce => ce
  | c :: cs, l, ce => checkAll fixed cs l (check fixed c l ce)
end

/-- today's code: a hook fires although its wrapped core declined -/
theorem hook_bug : .hook 7 ∈ check false (.tee [.leaf 1 (fun _ => true), .hooked (.leaf 2 (fun _ => false)) 7]) 0 [] := by
  decide

mutual
/-- framing: a (repaired) Check only appends, and what it appends does not depend on the accumulator -/
theorem check_frame : ∀ (c : Core) (l : Level) (ce : List Item),
    check true c l ce = ce ++ check true c l []
  | .leaf i en, l, ce => by simp [check]; split <;> simp
  | .nop, l, ce => by simp [check]
  | .tee cs, l, ce => by simp only [check]; exact checkAll_frame cs l ce
  | .incr c en, l, ce => by
      simp only [check]; split
      · exact check_frame c l ce
      · simp
  | .hooked c h, l, ce => by
      have ih := check_frame c l ce
      simp only [check, if_true]
      rw [ih]
      by_cases hd : (check true c l []).length > 0
      · have h1 : (ce ++ check true c l []).length > ce.length := by simp; omega
        simp [h1, hd]
      · have h0 : check true c l [] = [] := by
          cases hc : check true c l [] with
          | nil => rfl
          | cons _ _ => simp [hc] at hd
        simp [h0]
theorem checkAll_frame : ∀ (cs : List Core) (l : Level) (ce : List Item),
    checkAll true cs l ce = ce ++ checkAll true cs l []
  | [], l, ce => by simp [checkAll]
  | c :: cs, l, ce => by
      simp only [checkAll]
      rw [checkAll_frame cs l (check true c l ce), checkAll_frame cs l (check true c l []),
          check_frame c l ce]
      simp
end

/-- repaired hook rule: the hook fires iff the wrapped core accepted -/
theorem hook_fires_iff (c : Core) (h : Nat) (l : Level) (ce : List Item) :
    check true (.hooked c h) l ce =
      ce ++ check true c l [] ++ (if check true c l [] = [] then [] else [.hook h]) := by
  simp only [check, if_true]
  rw [check_frame c l ce]
  cases hc : check true c l [] with
  | nil => simp
  | cons a r => simp

/-- a tee delivers to each branch independently -/
theorem tee_independent (c : Core) (cs : List Core) (l : Level) :
    check true (.tee (c :: cs)) l [] = check true c l [] ++ check true (.tee cs) l [] := by
  simp only [check, checkAll]
  rw [checkAll_frame]

/-- an increase-level wrapper only narrows -/
theorem incr_narrows (c : Core) (en : Level → Bool) (l : Level) (x : Item) :
    x ∈ check true (.incr c en) l [] → x ∈ check true c l [] := by
  simp only [check]; split <;> simp

end Cores
