namespace Merge
abbrev Bytes := List UInt8

structure Thr where
  todo : List Bytes          -- lines this goroutine still has to log
  cur : Option Bytes         -- some rest ⇒ holds the sink mutex, `rest` still to be emitted

structure St where
  thr : Nat → Thr
  lock : Option Nat
  sink : Bytes
  hist : List (Nat × Bytes)   -- ghost: (goroutine, line) in lock-acquisition order

def upd (f : Nat → Thr) (t : Nat) (v : Thr) : Nat → Thr := fun i => if i = t then v else f i

/-- one scheduler step of goroutine t; `none` = t is blocked or finished -/
def step (s : St) (t : Nat) : Option St :=
  match (s.thr t).cur with
  | some (b :: rest) => some { s with thr := upd s.thr t { (s.thr t) with cur := some rest }, sink := s.sink ++ [b] }
  | some [] => some { s with thr := upd s.thr t { (s.thr t) with cur := none }, lock := none }
  | none =>
    match (s.thr t).todo, s.lock with
    | l :: ls, none => some { s with thr := upd s.thr t { todo := ls, cur := some l }, lock := some t,
                                     hist := s.hist ++ [(t, l)] }
    | _, _ => none

def run (s : St) : List Nat → St
  | [] => s
  | t :: ts => match step s t with
    | some s' => run s' ts
    | none => run s ts          -- blocked thread: schedule someone else

def written (s : St) : Bytes := (s.hist.map (·.2)).flatten

/-- the invariant: the mutex is what the ghost says, and the sink is the concatenation of whole
    lines in acquisition order minus what the current holder still has to emit -/
structure Inv (s : St) : Prop where
  excl : ∀ t, (s.thr t).cur ≠ none → s.lock = some t
  free : s.lock = none → s.sink = written s
  held : ∀ t rest, s.lock = some t → (s.thr t).cur = some rest → s.sink ++ rest = written s
  holder_cur : ∀ t, s.lock = some t → (s.thr t).cur ≠ none

theorem step_inv (s s' : St) (t : Nat) (h : Inv s) (hs : step s t = some s') : Inv s' := by
  unfold step at hs
  cases hc : (s.thr t).cur with
  | some cur =>
    have hl := h.excl t (by simp [hc])
    cases cur with
    | cons b rest =>
      simp [hc] at hs; subst hs
      refine ⟨?_, ?_, ?_, ?_⟩
      · intro u hu; by_cases hut : u = t
        · subst hut; exact hl
        · simp [upd, hut] at hu; exact h.excl u hu
      · intro hf; simp [hl] at hf
      · intro u r hlu hcu
        have hut : u = t := by simpa [hl] using hlu.symm
        subst hut
        have hr : r = rest := by simpa [upd] using hcu.symm
        subst hr
        have := h.held u (b :: r) hl hc
        simpa [written, List.append_assoc] using this
      · intro u hlu
        have hut : u = t := by simpa [hl] using hlu.symm
        subst hut; simp [upd]
    | nil =>
      simp [hc] at hs; subst hs
      refine ⟨?_, ?_, ?_, ?_⟩
      · intro u hu; by_cases hut : u = t
        · subst hut; simp [upd] at hu
        · simp [upd, hut] at hu
          have := h.excl u hu; rw [hl] at this; simp at this; exact absurd this.symm hut
      · intro _; have := h.held t [] hl hc; simpa [written] using this
      · intro u r hlu; simp at hlu
      · intro u hlu; simp at hlu
  | none =>
    simp [hc] at hs
    cases htd : (s.thr t).todo with
    | nil => simp [htd] at hs
    | cons l ls =>
      cases hlk : s.lock with
      | some u => simp [htd, hlk] at hs
      | none =>
        simp [htd, hlk] at hs; subst hs
        have hfree := h.free hlk
        refine ⟨?_, ?_, ?_, ?_⟩
        · intro u hu; by_cases hut : u = t
          · subst hut; rfl
          · simp [upd, hut] at hu
            have := h.excl u hu; rw [hlk] at this; simp at this
        · intro hf; simp at hf
        · intro u r hlu hcu
          have hut : u = t := by simpa using hlu.symm
          subst hut
          have hr : r = l := by simpa [upd] using hcu.symm
          subst hr
          simp [written, hfree]
        · intro u hlu
          have hut : u = t := by simpa using hlu.symm
          subst hut; simp [upd]

theorem run_inv (s : St) (sched : List Nat) (h : Inv s) : Inv (run s sched) := by
  induction sched generalizing s with
  | nil => exact h
  | cons t ts ih =>
    simp only [run]
    cases hs : step s t with
    | none => exact ih s h
    | some s' => exact ih s' (step_inv s s' t h hs)

/-- whenever the mutex is free (in particular at the end), the sink is a concatenation of whole
    lines: never torn, interleaved or merged -/
theorem sink_whole_lines (s : St) (sched : List Nat) (h : Inv s) (hf : (run s sched).lock = none) :
    (run s sched).sink = written (run s sched) :=
  (run_inv s sched h).free hf

end Merge
