package probe

import (
	"bytes"
	"context"
	"encoding/json"
	"errors"
	"fmt"
	"log"
	"log/slog"
	"math"
	"net"
	"net/url"
	"os"
	"sync"
	"testing"
	"time"

	"go.uber.org/zap"
	"go.uber.org/zap/exp/zapslog"
	"go.uber.org/zap/zapcore"
	"go.uber.org/zap/zapgrpc"
	"go.uber.org/zap/zaptest/observer"
)

func try(name string, f func()) {
	defer func() {
		if r := recover(); r != nil {
			fmt.Printf("%-28s PANIC: %v\n", name, r)
		}
	}()
	f()
}

type wr struct {
	n   int
	err error
	buf bytes.Buffer
}

func (w *wr) Write(p []byte) (int, error) { w.buf.Write(p); if w.n >= 0 { return w.n, w.err }; return len(p), w.err }
func (w *wr) Sync() error                  { return nil }

type cs struct{ opened, closed int }
type sink struct {
	bytes.Buffer
	c *cs
}

func (s *sink) Sync() error  { return nil }
func (s *sink) Close() error { s.c.closed++; return nil }

func TestProbe(t *testing.T) {
	cfg := zap.NewProductionEncoderConfig()
	ent := zapcore.Entry{Level: zapcore.InfoLevel, Time: time.Unix(1, 0), Message: "m", Caller: zapcore.EntryCaller{Defined: true, File: "a/b/c.go", Line: 3}}
	try("a layout-quote", func() {
		c := cfg
		c.EncodeTime = zapcore.TimeEncoderOfLayout(`2006"01\`)
		b, _ := zapcore.NewJSONEncoder(c).EncodeEntry(ent, nil)
		fmt.Printf("%-28s valid=%v %s", "a layout-quote", json.Valid(b.Bytes()), b.String())
	})
	try("b nil-EncodeCaller", func() {
		c := cfg
		c.EncodeCaller = nil
		b, _ := zapcore.NewJSONEncoder(c).EncodeEntry(ent, nil)
		fmt.Printf("%-28s valid=%v %s", "b nil-EncodeCaller", json.Valid(b.Bytes()), b.String())
	})
	try("b2 nil-EncodeTime/Dur", func() {
		c := cfg
		c.EncodeTime = nil
		c.EncodeDuration = nil
		b, _ := zapcore.NewJSONEncoder(c).EncodeEntry(ent, []zapcore.Field{zap.Duration("d", 5), zap.Time("t", time.Unix(2, 0))})
		fmt.Printf("%-28s valid=%v %s", "b2", json.Valid(b.Bytes()), b.String())
	})
	try("c hooked-after-accept", func() {
		a, al := observer.New(zapcore.DebugLevel)
		b, bl := observer.New(zapcore.ErrorLevel)
		n := 0
		core := zapcore.NewTee(a, zapcore.RegisterHooks(b, func(zapcore.Entry) error { n++; return nil }))
		zap.New(core).Info("x")
		fmt.Printf("%-28s a=%d b=%d hookcalls=%d\n", "c hooked-after-accept", al.Len(), bl.Len(), n)
	})
	try("d tee-level", func() {
		core := zapcore.NewTee(zapcore.NewNopCore(), zapcore.NewNopCore())
		fmt.Printf("%-28s LevelOf=%v enabled(fatal)=%v\n", "d tee-level", zapcore.LevelOf(core), core.Enabled(zapcore.FatalLevel))
	})
	try("e multi-min", func() {
		ws := zapcore.NewMultiWriteSyncer(&wr{n: 0}, &wr{n: 5})
		n, err := ws.Write([]byte("hello"))
		ws2 := zapcore.NewMultiWriteSyncer(&wr{n: 3}, &wr{n: 0}, &wr{n: 5})
		n2, _ := ws2.Write([]byte("hello"))
		fmt.Printf("%-28s [0,5]->%d err=%v  [3,0,5]->%d\n", "e multi-min", n, err, n2)
	})
	try("f stdlog-writer", func() {
		core, _ := observer.New(zapcore.DebugLevel)
		w := zap.NewStdLog(zap.New(core)).Writer()
		n, err := w.Write([]byte("hello\n"))
		fmt.Printf("%-28s n=%d of 6 err=%v\n", "f stdlog-writer", n, err)
	})
	try("g redirect-invalid", func() {
		log.SetFlags(log.LstdFlags)
		log.SetPrefix("pfx")
		_, err := zap.RedirectStdLogAt(zap.NewNop(), zapcore.Level(99))
		fmt.Printf("%-28s err=%v flags=%d prefix=%q\n", "g redirect-invalid", err, log.Flags(), log.Prefix())
		log.SetFlags(log.LstdFlags)
		log.SetPrefix("")
	})
	try("h build-missing-level", func() {
		c := &cs{}
		_ = zap.RegisterSink("probe", func(*url.URL) (zap.Sink, error) { c.opened++; return &sink{c: c}, nil })
		zc := zap.NewProductionConfig()
		zc.Level = zap.AtomicLevel{}
		zc.OutputPaths = []string{"probe://a", "probe://b"}
		zc.ErrorOutputPaths = []string{"probe://c"}
		_, err := zc.Build()
		fmt.Printf("%-28s err=%v opened=%d closed=%d\n", "h build-missing-level", err, c.opened, c.closed)
	})
	try("i1 equals-inline-dict", func() {
		f := zap.Inline(zap.DictObject(zap.Int("a", 1)))
		fmt.Printf("%-28s %v\n", "i1 equals-inline-dict", f.Equals(f))
	})
	try("i2 equals-stringer-ip", func() {
		f := zap.Stringer("ip", net.IP{1, 2, 3, 4})
		fmt.Printf("%-28s %v\n", "i2 equals-stringer-ip", f.Equals(f))
	})
	try("i3 equals-complex-nan", func() {
		f := zap.Complex128("c", complex(math.NaN(), 0))
		g := zap.Float64("c", math.NaN())
		h := zap.Reflect("r", math.NaN())
		fmt.Printf("%-28s complex=%v float=%v reflect=%v\n", "i3 equals-nan", f.Equals(f), g.Equals(g), h.Equals(h))
	})
	try("k1 slog-empty-groupname", func() {
		var buf bytes.Buffer
		core := zapcore.NewCore(zapcore.NewJSONEncoder(zapcore.EncoderConfig{MessageKey: "msg"}), zapcore.AddSync(&buf), zapcore.DebugLevel)
		h := zapslog.NewHandler(core)
		h2 := h.WithGroup("").WithAttrs([]slog.Attr{slog.Int("a", 1)})
		r := slog.NewRecord(time.Time{}, slog.LevelInfo, "m", 0)
		_ = h2.Handle(context.Background(), r)
		h3 := h.WithAttrs([]slog.Attr{slog.Group("g")})
		_ = h3.Handle(context.Background(), r)
		h4 := h.WithGroup("outer")
		r2 := slog.NewRecord(time.Time{}, slog.LevelInfo, "m", 0)
		r2.AddAttrs(slog.Any("lv", lv{}))
		_ = h4.Handle(context.Background(), r2)
		r3 := slog.NewRecord(time.Time{}, slog.LevelInfo, "m", 0)
		r3.AddAttrs(slog.Group("g", slog.Attr{}))
		_ = h.Handle(context.Background(), r3)
		fmt.Printf("%-28s\n%s", "k slog", buf.String())
		var b2 bytes.Buffer
		jh := slog.NewJSONHandler(&b2, &slog.HandlerOptions{ReplaceAttr: func(g []string, a slog.Attr) slog.Attr { if a.Key == "time" || a.Key == "level" { return slog.Attr{} }; return a }})
		_ = jh.WithGroup("").WithAttrs([]slog.Attr{slog.Int("a", 1)}).Handle(context.Background(), r)
		_ = jh.WithAttrs([]slog.Attr{slog.Group("g")}).Handle(context.Background(), r)
		_ = jh.WithGroup("outer").Handle(context.Background(), r2)
		_ = jh.Handle(context.Background(), r3)
		fmt.Printf("std json handler:\n%s", b2.String())
	})
	try("m registersink-kelvin", func() {
		err := zap.RegisterSink("K", func(*url.URL) (zap.Sink, error) { return nil, errors.New("x") })
		err2 := zap.RegisterSink("k", func(*url.URL) (zap.Sink, error) { return nil, errors.New("x") })
		fmt.Printf("%-28s err=%v then k: %v\n", "m registersink-kelvin", err, err2)
		var l zapcore.Level = 5
		e := l.UnmarshalText([]byte("İNFO"))
		fmt.Printf("%-28s İNFO -> %v err=%v\n", "m level-unicode", l, e)
	})
	try("j grpc-fatalln", func() {
		// Fatal disabled: enabler only enables below fatal
		core, logs := observer.New(zap.LevelEnablerFunc(func(l zapcore.Level) bool { return l < zapcore.FatalLevel }))
		called := 0
		lg := zap.New(core, zap.WithFatalHook(hook{&called}))
		g := zapgrpc.NewLogger(lg)
		g.Fatal("a")
		g.Fatalf("b")
		g.Fatalln("c")
		fmt.Printf("%-28s fatal-hook calls=%d of 3 logs=%d\n", "j grpc-fatalln", called, logs.Len())
	})
	_ = os.Stderr
}

type lv struct{}

func (lv) LogValue() slog.Value { return slog.GroupValue() }

type hook struct{ n *int }

func (h hook) OnWrite(*zapcore.CheckedEntry, []zapcore.Field) { *h.n++ }

func TestLazyRace(t *testing.T) {
	core, _ := observer.New(zapcore.DebugLevel)
	for i := 0; i < 50; i++ {
		l := zap.New(core).WithLazy(zap.Int("a", 1))
		var wg sync.WaitGroup
		for g := 0; g < 4; g++ {
			wg.Add(1)
			go func() { defer wg.Done(); l.Info("x") }()
		}
		wg.Wait()
	}
}
