package probe

import (
	"fmt"
	"testing"
	"time"

	"go.uber.org/zap"
	"go.uber.org/zap/zapcore"
	"go.uber.org/zap/zaptest/observer"
)

type ps struct{ s string }

func (p *ps) String() string { return p.s }

func TestProbe2(t *testing.T) {
	try("stringers-nil", func() {
		core, logs := observer.New(zapcore.DebugLevel)
		l := zap.New(core)
		l.Info("x", zap.Stringers("ss", []*ps{{"a"}, nil, {"b"}}))
		fmt.Printf("%-28s logs=%d %v\n", "stringers-nil", logs.Len(), logs.All()[0].ContextMap())
	})
	try("stringer-nil-single", func() {
		core, logs := observer.New(zapcore.DebugLevel)
		l := zap.New(core)
		l.Info("x", zap.Stringer("s", (*ps)(nil)))
		fmt.Printf("%-28s logs=%d %v\n", "stringer-nil-single", logs.Len(), logs.All()[0].ContextMap())
	})
	try("sampler-neg-time", func() {
		core, logs := observer.New(zapcore.DebugLevel)
		s := zapcore.NewSamplerWithOptions(core, time.Second, 1, 0)
		for i := 0; i < 5; i++ {
			ent := zapcore.Entry{Level: zapcore.InfoLevel, Message: "m", Time: time.Unix(-100+int64(i)*10, 0)}
			if ce := s.Check(ent, nil); ce != nil {
				ce.Write()
			}
		}
		n1 := logs.Len()
		core2, logs2 := observer.New(zapcore.DebugLevel)
		s2 := zapcore.NewSamplerWithOptions(core2, time.Second, 1, 0)
		for i := 0; i < 5; i++ {
			ent := zapcore.Entry{Level: zapcore.InfoLevel, Message: "m", Time: time.Unix(100+int64(i)*10, 0)}
			if ce := s2.Check(ent, nil); ce != nil {
				ce.Write()
			}
		}
		fmt.Printf("%-28s pre-epoch admitted=%d post-epoch admitted=%d (5 entries 10s apart, tick 1s, first=1)\n", "sampler-neg-time", n1, logs2.Len())
	})
	try("incr-out-of-range", func() {
		core, logs := observer.New(zap.LevelEnablerFunc(func(l zapcore.Level) bool { return l >= zapcore.InfoLevel && l <= zapcore.FatalLevel }))
		c, err := zapcore.NewIncreaseLevelCore(core, zapcore.ErrorLevel)
		fmt.Printf("%-28s err=%v enabled(7)=%v ", "incr-out-of-range", err, c.Enabled(7))
		if ce := c.Check(zapcore.Entry{Level: 7}, nil); ce != nil {
			ce.Write()
		}
		fmt.Printf("delivered=%d\n", logs.Len())
	})
}
