package probe

import (
	"fmt"
	"runtime"
	"sync"
	"sync/atomic"
	"testing"
	"time"

	"go.uber.org/zap/zapcore"
)

type cntSink struct{ n atomic.Int64 }

func (c *cntSink) Write(p []byte) (int, error) { runtime.Gosched(); c.n.Add(int64(len(p))); return len(p), nil }
func (c *cntSink) Sync() error                  { return nil }

func TestDoubleStopStress(t *testing.T) {
	early := 0
	const iters = 200000
	for i := 0; i < iters; i++ {
		s := &cntSink{}
		b := &zapcore.BufferedWriteSyncer{WS: s, Size: 1024, FlushInterval: time.Hour}
		b.Write([]byte("0123456789"))
		var wg sync.WaitGroup
		var seen [2]int64
		for k := 0; k < 2; k++ {
			wg.Add(1)
			go func(k int) {
				defer wg.Done()
				b.Stop()
				seen[k] = s.n.Load()
			}(k)
		}
		wg.Wait()
		if seen[0] < 10 || seen[1] < 10 {
			early++
		}
	}
	fmt.Printf("early-return Stop observed in %d of %d runs\n", early, iters)
}
