package probe

import (
	"bytes"
	"fmt"
	"testing"

	"go.uber.org/zap"
	"go.uber.org/zap/zapcore"
)

type cntObj struct{ n *int }

func (c cntObj) MarshalLogObject(enc zapcore.ObjectEncoder) error { *c.n++; return nil }

type nopHook struct{}

func (nopHook) OnWrite(*zapcore.CheckedEntry, []zapcore.Field) {}

func TestLazyDisabledMarshal(t *testing.T) {
	var buf bytes.Buffer
	enab := zap.LevelEnablerFunc(func(l zapcore.Level) bool { return l == zapcore.InfoLevel })
	core := zapcore.NewCore(zapcore.NewJSONEncoder(zap.NewProductionEncoderConfig()), zapcore.AddSync(&buf), enab)
	n := 0
	l := zap.New(core, zap.WithPanicHook(nopHook{})).WithLazy(zap.Object("o", cntObj{&n}))
	l.Debug("disabled below dpanic")
	a := n
	l.Panic("disabled at panic")
	fmt.Printf("marshal calls after disabled Debug=%d, after disabled Panic=%d, sink bytes=%d\n", a, n, buf.Len())
}
